"""Rules over the analysis scope (movement / patterns): R-NORM, R-WRAP, R-CAUSAL, R-NONE."""
from __future__ import annotations

import ast
from typing import Dict, List, Optional

from . import poly
from .absint import N, Num, Obj, Opaque, Site, show_cond
from .analysis_scope import IDX, RAW, FuncAnalysis, analyse_function, analysis_universe, public_context
from .core import Finding, Result, finding, norm_construct
from .facts import describe_facts, prove_ge0
from .model import FuncInfo, Repo
from .poly import A, C, Frac, ONE, ZERO
from .structure import canon_test

# reviewed uses of len(candles) that do not make the answer depend on later candles
# (function name, normalised enclosing test) -> reason
FROZEN_LEN_GUARDS = {
    ("rising", "len(candles) < 2"): "validity guard: with the list truncated after index 0 the window [0:0] is empty and the function returns False either way",
    ("falling", "len(candles) < 2"): "same as rising",
    ("mean_rising", "len(candles) < 2"): "same as rising",
    ("mean_falling", "len(candles) < 2"): "same as rising",
    ("highest", "len(candles) < 1"): "empty-list guard; absindex already returned None for an empty list",
    ("lowest", "len(candles) < 1"): "same as highest",
}
INDEX_HELPERS = ("absindex", "valid_index", "validate_index")


def _parents(fn: ast.FunctionDef) -> Dict[int, ast.AST]:
    out = {}
    for p in ast.walk(fn):
        for c in ast.iter_child_nodes(p):
            out[id(c)] = p
    return out


def _flatten(facts):
    for c in facts:
        if isinstance(c, tuple) and c and c[0] == "and":
            yield from _flatten(c[1:])
        else:
            yield c


def _has_raw(f: Frac) -> bool:
    """the raw index occurs as a *number* (not merely inside the position of a reading)"""
    if not isinstance(f, Frac):
        return False
    for a in f.atoms():
        if a == ("raw",):
            return True
        if a[0] in ("fn", "pow", "ite"):
            for x in a[1:]:
                if isinstance(x, Frac) and _has_raw(x):
                    return True
    return False


def unguarded_reads(f, guards: list, out: set):
    """named readings used as numbers in f that are not covered by a presence guard (facts or enclosing ite)"""
    if not isinstance(f, Frac):
        return
    for a in f.atoms():
        _ug_atom(a, guards, out)


def _ug_atom(a, guards, out):
    tag = a[0]
    if tag == "rd":
        if a[1].startswith("<") and ("present", a[1], a[2]) not in guards and ("isnum", a[1], a[2]) not in guards:
            out.add((a[1], a[2]))
    elif tag == "ite":
        g2 = guards + list(_flatten([a[1]]))
        unguarded_reads(a[2], g2, out)
        unguarded_reads(a[3], guards, out)
    elif tag in ("fn", "pow"):
        for x in a[1:]:
            unguarded_reads(x, guards, out)
    elif tag == "sum":
        unguarded_reads(a[3], guards, out)
    elif tag == "red":
        unguarded_reads(a[4], guards, out)


def _raw_valid(facts) -> bool:
    fl = list(_flatten(facts))
    return ("valid-raw",) in fl or ("not", ("invalid-index",)) in fl


def check_function(prop: str, res: Result, repo: Repo, fi: FuncInfo, want=("R-NORM", "R-WRAP", "R-CAUSAL", "R-NONE")):
    fa = analyse_function(repo, fi)
    if fa.error:
        res.errors.append(f"{fi.where} {fi.qualname}: {fa.error}")
        return fa
    parents = _parents(fi.node)
    uses_idx = any(IDX.atoms() <= poly.all_atoms(s.data.get("pos")) for s in fa.sites("read") if isinstance(s.data.get("pos"), Frac)) or True
    for s in list(fa.sites("read")) + list(fa.sites("slice")):
        facts, extra = public_context(s)
        if s.kind == "read":
            lo = hi = s.data["pos"]
            label = f"{s.data.get('how')}({s.data.get('name')!r} @ {lo!r})"
            hi_goal = lambda h: IDX - h  # noqa
        else:
            lo, hi = s.data["lo"], s.data["hi"]
            label = f"candles[{lo!r}:{hi!r}]"
            hi_goal = lambda h: IDX + ONE - h  # noqa
        where = f"{_where(fi, s)} {label}"
        if lo is None or hi is None:
            res.fail("R-WRAP", finding(prop, "R-WRAP", fi, s.node, "position is not a number the analysis can bound"))
            continue
        raw_here = ("raw",) in poly.all_atoms(lo) or ("raw",) in poly.all_atoms(hi) or lo == RAW
        if "R-NORM" in want:
            if raw_here:
                if s.kind == "read" and lo == RAW and (_raw_valid(facts) or s.data.get("checked")):
                    res.ok("R-NORM", {"site": where, "why": "raw index used as a single validated subscript: i and i-n address the same candle"}, nontrivial=where)
                else:
                    res.fail("R-NORM", finding(prop, "R-NORM", fi, s.node, f"position arithmetic on the un-normalised index ({label}); facts: {describe_facts(facts)}"))
                    continue
            else:
                res.ok("R-NORM", {"site": where, "why": "position built from the absindex-normalised index"})
        if raw_here:
            continue
        if "R-WRAP" in want:
            if prove_ge0(lo, facts, extra):
                res.ok("R-WRAP", {"site": where, "facts": describe_facts(facts)[:300]}, nontrivial=where)
            else:
                res.fail("R-WRAP", finding(prop, "R-WRAP", fi, s.node, f"look-back position {lo!r} can be negative (wraps to the newest candles); facts: {describe_facts(facts)[:300]}"))
        if "R-CAUSAL" in want:
            if prove_ge0(hi_goal(hi), facts, extra):
                res.ok("R-CAUSAL", {"site": where, "goal": f"{hi!r} <= evaluated index"})
            else:
                res.fail("R-CAUSAL", finding(prop, "R-CAUSAL", fi, s.node, f"position {hi!r} is not bounded by the evaluated index (depends on later candles); facts: {describe_facts(facts)[:300]}"))
    if "R-NORM" in want:
        for s in fa.sites("compare"):
            lhs, rhs = s.data["lhs"], s.data["rhs"]
            if _has_raw(lhs) or _has_raw(rhs):
                res.fail("R-NORM", finding(prop, "R-NORM", fi, s.node, "the un-normalised index (possibly negative) is compared / used in arithmetic"))
        for s in fa.sites("norm-bad-length"):
            res.fail("R-NORM", finding(prop, "R-NORM", fi, s.node, f"{s.data['func']} called with a length that is not len(candles)"))
        for s in fa.sites("loop"):
            c = s.data.get("count")
            if isinstance(c, Frac) and _has_raw(c):
                res.fail("R-NORM", finding(prop, "R-NORM", fi, s.node, "loop bound built from the un-normalised index"))
    if "R-CAUSAL" in want:
        for s in fa.sites("len-candles"):
            par = parents.get(id(s.node))
            if isinstance(par, ast.Call) and isinstance(par.func, (ast.Name, ast.Attribute)):
                fname = par.func.id if isinstance(par.func, ast.Name) else par.func.attr
                if fname in INDEX_HELPERS:
                    res.ok("R-CAUSAL", {"site": f"{_where(fi, s)} len(candles)", "why": f"length argument of {fname}"})
                    continue
            # enclosing test expression
            top = s.node
            while id(top) in parents and isinstance(parents[id(top)], (ast.Compare, ast.UnaryOp, ast.BoolOp)) and not isinstance(parents[id(top)], ast.BoolOp):
                top = parents[id(top)]
            key = (fi.name, canon_test(top))
            if key in FROZEN_LEN_GUARDS:
                res.ok("R-CAUSAL", {"site": f"{_where(fi, s)} {key[1]}", "why": "frozen exception: " + FROZEN_LEN_GUARDS[key]}, nontrivial=str(key))
            else:
                res.fail("R-CAUSAL", finding(prop, "R-CAUSAL", fi, top, "len(candles) used outside index normalisation: the answer depends on how many candles follow the evaluated one"))
        for s in fa.sites("whole-list-iter"):
            res.fail("R-CAUSAL", finding(prop, "R-CAUSAL", fi, s.node, "iteration over the whole candle list"))
    if "R-NONE" in want:
        for s in list(fa.sites("compare")) + list(fa.sites("div")):
            fr = [s.data.get("lhs"), s.data.get("rhs"), s.data.get("num"), s.data.get("den")]
            need = set()
            for f in fr:
                if isinstance(f, Frac):
                    for a in poly.all_atoms(f):
                        if a[0] == "rd" and a[1].startswith("<"):
                            need.add((a[1], a[2]))
            if not need:
                continue
            fl = list(_flatten(s.facts))
            miss = set()
            for f in fr:
                unguarded_reads(f, fl, miss)
            missing = sorted(miss, key=repr)
            where = f"{_where(fi, s)} {norm_construct(s.node)[:80]}"
            if missing:
                res.fail("R-NONE", finding(prop, "R-NONE", fi, s.node, f"ordering/arithmetic on a looked-up reading that may be None: {missing[0][0]}@{missing[0][1]!r} (raises TypeError when the reading is missing)"))
            else:
                res.ok("R-NONE", {"site": where, "guards": [f"present({n}@{p!r})" for n, p in need]}, nontrivial=where)
        for s in list(fa.sites("none-arith")) + list(fa.sites("none-compare")):
            res.fail("R-NONE", finding(prop, "R-NONE", fi, s.node, "arithmetic or ordering on None"))
        for s in fa.sites("reduce-maybe-empty"):
            # min()/max() of a possibly empty cleaned window without default raises ValueError
            fl = list(_flatten(s.facts))
            seq = s.data.get("seq")
            guarded = any(isinstance(c, tuple) and c[0] == "cmp" and any(a[0] == "lenf" for a in poly.all_atoms(c[2])) for c in fl) or any(
                isinstance(c, tuple) and c[0] == "nonempty" for c in fl
            )
            if guarded:
                res.ok("R-NONE", {"site": f"{_where(fi, s)} {norm_construct(s.node)}", "why": "window proven non-empty by a length guard"})
            else:
                res.fail("R-NONE", finding(prop, "R-NONE", fi, s.node, "min()/max() over a cleaned window that may be empty (all readings missing) raises ValueError"))
    return fa


def _where(fi: FuncInfo, s: Site) -> str:
    return f"{fi.module.relpath}:{s.line}"


def check_amorph(prop: str, res: Result, repo: Repo):
    """Amorph must hand the absolute evaluated index and its own candle list to the analysis function"""
    ci = repo.cls("hexital.indicators.amorph", "Amorph")
    m = repo.find_method(ci, "_calculate_reading")
    if m is None or m.cls is not ci:
        res.errors.append("Amorph._calculate_reading vanished")
        return
    calls = [n for n in ast.walk(m.node) if isinstance(n, ast.Call) and "_analysis_method" in ast.unparse(n.func)]
    if not calls:
        # a callable captured on the object (functools.partial, closure, cached bound arguments) freezes the candle list of the first call
        captured = [st for st in ast.walk(m.node) if isinstance(st, (ast.Assign, ast.AnnAssign)) and any(isinstance(t, ast.Attribute) and isinstance(t.value, ast.Name) and t.value.id == "self" for t in (st.targets if isinstance(st, ast.Assign) else [st.target])) and st.value is not None and "self.candles" in ast.unparse(st.value)]
        if captured:
            res.fail("R-CAUSAL", finding(prop, "R-CAUSAL", m, captured[0], "Amorph stores a callable/arguments built from self.candles on the object: later calls evaluate a stale candle list instead of the current one"))
            return
        res.errors.append("Amorph._calculate_reading no longer calls self._analysis_method")
        return
    params = [a.arg for a in m.node.args.args]
    idx_param = params[1] if len(params) > 1 else "index"
    for c in calls:
        kws = {k.arg: ast.unparse(k.value) for k in c.keywords if k.arg}
        if kws.get("index") == idx_param:
            res.ok("R-NORM", {"site": f"{m.where} {norm_construct(c)}", "why": "Amorph passes the absolute index of the candle being calculated"})
        else:
            res.fail("R-NORM", finding(prop, "R-NORM", m, c, f"Amorph does not pass index={idx_param}: the wrapped function would evaluate the newest candle for every row"))
        if kws.get("candles") == "self.candles":
            res.ok("R-CAUSAL", {"site": f"{m.where} candles=self.candles"})
        else:
            res.fail("R-CAUSAL", finding(prop, "R-CAUSAL", m, c, "Amorph does not pass candles=self.candles"))
