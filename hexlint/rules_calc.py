"""Rules over the indicator IR (calc scope): positions, values, writes, loops."""
from __future__ import annotations

import ast
from typing import Dict, List, Optional, Tuple

from . import poly
from .absint import BoolV, DictV, N, NoneV, Num, Obj, Opaque, Path, Site, Str, T, Val, show_cond
from .core import Finding, Result, finding
from .facts import describe_facts, prove_ge0
from .indic import CANDLE_FIELDS, ClassAnalysis, analyse_class
from .model import ClassInfo, Repo
from .poly import A, C, Frac, ONE, ZERO
from .sign import ANY, NEG, NONNEG, NONPOS, POS, ZERO as SZERO, SignEnv, includes_zero, nonzero, s_join

SELF = "<name>"


# ---------------------------------------------------------------------------
# config domain


def cfg_domain(ca: ClassAnalysis) -> List[Frac]:
    """integer period-like parameters are >= 2 (property quantifiers: 'all periods >= 2')"""
    out = []
    for fname, fi in ca.interp.fields.items():
        if not fi.init or fi.annotation is None:
            continue
        ann = ast.unparse(fi.annotation)
        if "int" in ann and "bool" not in ann and fname not in ("round_value",):
            out.append(A("cfg", fname) - C(2))
    return out


def _is_self_name(name: str) -> Tuple[bool, Optional[str]]:
    base, _, fld = name.partition(".")
    return base == SELF, (fld or None)


def _ret_field(ret: Val, fld: Optional[str]) -> Val:
    if fld is None:
        return ret
    if isinstance(ret, DictV):
        return ret.items.get(fld, NoneV())
    return ret


def warmup(ca: ClassAnalysis, fld: Optional[str] = None) -> Frac:
    """inductive warm-up bound W: every path that produces a non-None reading (field) without relying on
    Present(self, t-1) implies t >= W.  Returned bound is a sound lower bound (0 if nothing better)."""
    cands = []
    for p in ca.paths:
        v = _ret_field(p.ret, fld)
        if isinstance(v, NoneV):
            continue
        facts = p.state.facts
        if any(isinstance(c, tuple) and c[0] == "present" and _is_self_name(c[1])[0] and c[2] == T - ONE for c in facts):
            continue
        lb = ZERO
        for c in facts:
            if isinstance(c, tuple) and c[0] == "period" and c[3] == T:
                cand = c[2] - ONE
                lb = cand  # a Period fact on the evaluated index: t >= P-1
        cands.append(lb)
    if not cands:
        return ZERO
    first = cands[0]
    if all(c == first for c in cands):
        return first
    return ZERO


def site_context(ca: ClassAnalysis, site: Site) -> Tuple[tuple, List[Frac]]:
    extra = list(cfg_domain(ca))
    extra.append(T)  # t >= 0
    extra.append(N - ONE - T)  # t <= n-1
    for c in site.facts:
        if isinstance(c, tuple) and c[0] == "present" and c[2] == T - ONE:
            is_self, fld = _is_self_name(c[1])
            if is_self:
                extra.append(T - ONE - warmup(ca, fld))
    return site.facts, extra


def _fn_of(ca: ClassAnalysis):
    return ca.fn if ca.fn is not None else ca.ci


# ---------------------------------------------------------------------------
# R-WRAP / R-CAUSAL


def movement_clamped(repo: Repo, fname: str) -> bool:
    from .analysis_scope import movement_summary

    return movement_summary(repo).get(fname, {}).get("clamped", False)


def check_positions(prop: str, res: Result, repo: Repo, cas: List[ClassAnalysis], want=("R-WRAP", "R-CAUSAL")):
    for ca in cas:
        fn = _fn_of(ca)
        for s in ca.sites("read"):
            d = s.data
            pos: Frac = d["pos"]
            facts, extra = site_context(ca, s)
            label = f"{d.get('how')}({d.get('name')!r} @ {pos!r})"
            if "R-WRAP" in want and not d.get("top"):
                rule = "R-WRAP"
                if d.get("guarded"):
                    res.ok(rule, {"site": f"{fn.where} {label}", "why": "prev_reading/prev_exists return None at index 0 (self-guarding)"})
                elif d.get("movement") and movement_clamped(repo, d["movement"]):
                    res.ok(rule, {"site": f"{fn.where} {label}", "why": f"movement.{d['movement']} clamps its window at 0 (derived from its body)"}, nontrivial=label)
                elif prove_ge0(pos, facts, extra):
                    res.ok(rule, {"site": f"{ca.ci.module.relpath}:{s.line} {label}", "facts": describe_facts(facts)}, nontrivial=f"{ca.ci.name}:{label}")
                else:
                    res.fail(
                        rule,
                        finding(prop, rule, fn, s.node, f"look-back position {pos!r} is not provably >= 0 (a negative position wraps to the newest candle); facts: {describe_facts(facts)}"),
                    )
            if "R-CAUSAL" in want and not d.get("window"):
                rule = "R-CAUSAL"
                if prove_ge0(T - pos, facts, extra):
                    res.ok(rule, {"site": f"{ca.ci.module.relpath}:{s.line} {label}", "goal": f"{pos!r} <= t"})
                else:
                    res.fail(rule, finding(prop, rule, fn, s.node, f"position {pos!r} is not provably <= the evaluated index (reads a later candle); facts: {describe_facts(facts)}"))
        if "R-CAUSAL" in want:
            for kind, msg in (
                ("len-candles", "len(candles) used inside a calculation: the value depends on how many candles follow the evaluated one"),
                ("default-index", "analysis helper called without the evaluated index: it reads the newest candle"),
                ("candles-slice", "slice of the candle list inside a calculation"),
                ("foreign-candles", "analysis helper called on something other than self.candles"),
            ):
                for s in ca.sites(kind):
                    res.fail("R-CAUSAL", finding(prop, "R-CAUSAL", fn, s.node, msg))
            for s in ca.sites("iter-other"):
                it = s.data.get("iter")
                if isinstance(it, Obj) and it.kind in ("candles", "reversed"):
                    res.fail("R-CAUSAL", finding(prop, "R-CAUSAL", fn, s.node, "un-indexed iteration over the candle list inside a calculation"))


# ---------------------------------------------------------------------------
# signs of readings


class Signs:
    """sign summaries for readings seen from a class: candle fields, input, helpers (inductive)."""

    def __init__(self, repo: Repo, assume_input_positive: bool = True):
        self.repo = repo
        self.assume_input_positive = assume_input_positive
        self._class_sum: Dict[tuple, str] = {}

    def class_summary(self, ci: ClassInfo, input_sign: str) -> str:
        """sign of every non-None numeric reading the class produces, given the sign of its input"""
        key = (ci.module.name, ci.name, input_sign)
        if key in self._class_sum:
            return self._class_sum[key]
        self._class_sum[key] = ANY  # cycle guard
        ca = analyse_class(self.repo, ci)
        best = ANY
        for hyp in (POS, NONNEG):
            ok = True
            for p in ca.paths:
                v = p.ret
                if isinstance(v, NoneV):
                    continue
                if not isinstance(v, Num):
                    ok = False
                    break
                env = SignEnv(self.atom_sign_fn(ca, input_sign, hyp), tuple(p.state.facts))
                s = env.frac(v.f)
                if hyp == POS and s != POS:
                    ok = False
                    break
                if hyp == NONNEG and s not in (POS, NONNEG, SZERO):
                    ok = False
                    break
            if ok and ca.paths:
                best = hyp
                break
        self._class_sum[key] = best
        return best

    def helper_input_sign(self, ca: ClassAnalysis, h) -> str:
        iv = h.kwargs.get("input_value")
        if iv is None:
            fi = self.repo.all_fields(h.cls).get("input_value")
            if fi is None or not isinstance(fi.default, ast.Constant):
                return POS  # no input: works on candle fields
            name = fi.default.value
        elif isinstance(iv, Str):
            name = iv.s
        else:
            return ANY
        return self.name_sign(ca, name, SZERO)

    def written_sign(self, ca: ClassAnalysis, name: str) -> Optional[str]:
        """sign of a managed series (field) from the values this class writes into it"""
        base, _, fld = name.partition(".")
        out = None
        found = False
        for p in ca.paths:
            for e in p.state.effects:
                if e[0] in ("wr", "direct-wr") and e[1] == base:
                    v = e[3]
                    if fld:
                        if isinstance(v, DictV):
                            if fld not in v.items:
                                continue
                            v = v.items[fld]
                        elif isinstance(v, NoneV):
                            continue
                        else:
                            return ANY
                    if isinstance(v, NoneV):
                        continue
                    if not isinstance(v, Num):
                        return ANY
                    env = SignEnv(self.atom_sign_fn(ca, POS if self.assume_input_positive else ANY, ANY), tuple(p.state.facts))
                    s = env.frac(v.f)
                    out = s if not found else s_join(out, s)
                    found = True
        return out if found else None

    def name_sign(self, ca: ClassAnalysis, name: str, _depth=0) -> str:
        base, _, fld = name.partition(".")
        if name in ("open", "high", "low", "close"):
            return POS
        if name == "volume":
            return NONNEG
        if base == "<input>":
            return POS if self.assume_input_positive else ANY
        helpers = ca.tree.by_name()
        if base in helpers:
            h = helpers[base]
            if h.cls is self.repo.managed():
                ws = self.written_sign(ca, name)
                return ws if ws is not None else ANY
            if fld:
                return ANY
            return self.class_summary(h.cls, self.helper_input_sign(ca, h))
        if base == SELF:
            ws = self.written_sign(ca, name)
            return ws if ws is not None else ANY
        return ANY

    def atom_sign_fn(self, ca: ClassAnalysis, input_sign: str, self_prev: str):
        def f(a):
            tag = a[0]
            if tag == "cfg":
                fi = ca.interp.fields.get(a[1])
                ann = ast.unparse(fi.annotation) if fi is not None and fi.annotation is not None else ""
                if "bool" in ann:
                    return ANY
                if a[1] in ("multiplier", "smoothing") or "period" in a[1] or "int" in ann or a[1] == "length":
                    return POS
                return ANY
            if tag == "rd":
                name = a[1]
                base = name.partition(".")[0]
                if base == "<input>":
                    return input_sign
                if name == SELF:
                    return self_prev
                return self.name_sign(ca, name)
            return ANY

        return f

    def env_for(self, ca: ClassAnalysis, facts: tuple) -> SignEnv:
        return SignEnv(self.atom_sign_fn(ca, POS if self.assume_input_positive else ANY, ANY), tuple(facts))


# ---------------------------------------------------------------------------
# R-DIV / R-SQRT / R-TRUTH


def check_div(prop: str, res: Result, repo: Repo, cas: List[ClassAnalysis], signs: Signs):
    for ca in cas:
        fn = _fn_of(ca)
        for s in ca.sites("div"):
            den: Frac = s.data["den"]
            env = signs.env_for(ca, s.facts)
            sg = env.frac(den)
            if den.is_const() and den.const_value() != 0:
                res.ok("R-DIV", {"site": f"{ca.ci.module.relpath}:{s.line}", "den": repr(den), "why": "non-zero constant"})
            elif nonzero(sg) or env.fact_nonzero(den):
                res.ok("R-DIV", {"site": f"{ca.ci.module.relpath}:{s.line}", "den": repr(den), "sign": sg, "facts": describe_facts(s.facts)}, nontrivial=f"{ca.ci.name}:{den!r}")
            else:
                res.fail("R-DIV", finding(prop, "R-DIV", fn, s.node, f"denominator {den!r} (sign {sg}) is not provably non-zero; facts: {describe_facts(s.facts)}"))


def check_sqrt(prop: str, res: Result, repo: Repo, cas: List[ClassAnalysis], signs: Signs):
    for ca in cas:
        fn = _fn_of(ca)
        for s in ca.sites("sqrt"):
            arg: Frac = s.data["arg"]
            sg = signs.env_for(ca, s.facts).frac(arg)
            if sg in (POS, NONNEG, SZERO):
                res.ok("R-SQRT", {"site": f"{ca.ci.module.relpath}:{s.line}", "arg": repr(arg)[:120], "sign": sg}, nontrivial=f"{ca.ci.name}:sqrt")
            else:
                res.fail("R-SQRT", finding(prop, "R-SQRT", fn, s.node, f"sqrt argument has sign {sg}: a rounding-negative value raises ValueError (clamp it at 0)"))


def _is_dict_valued(ca: ClassAnalysis, name: str) -> bool:
    base, _, fld = name.partition(".")
    if fld:
        return False
    h = ca.tree.by_name().get(base)
    if h is None:
        return False
    vals = []
    for p in ca.paths:
        for e in p.state.effects:
            if e[0] in ("wr", "direct-wr") and e[1] == base:
                vals.append(e[3])
    return bool(vals) and all(isinstance(v, (DictV, NoneV)) for v in vals) and any(isinstance(v, DictV) for v in vals)


def check_truth(prop: str, res: Result, repo: Repo, cas: List[ClassAnalysis], signs: Signs):
    for ca in cas:
        fn = _fn_of(ca)
        for s in ca.sites("truthy"):
            v: Frac = s.data["value"]
            a = poly._single_atom(v)
            if s.data.get("idiom") == "default-zero":
                res.ok("R-TRUTH", {"site": f"{ca.ci.module.relpath}:{s.line}", "why": "`if not x: x = 0` maps None and 0 to the same value"})
                continue
            if a is not None and a[0] == "rd" and _is_dict_valued(ca, a[1]):
                res.ok("R-TRUTH", {"site": f"{ca.ci.module.relpath}:{s.line}", "value": repr(v), "why": "dict-valued managed series (non-empty dict is truthy)"}, nontrivial=f"{ca.ci.name}:{v!r}")
                continue
            sg = signs.env_for(ca, s.facts).frac(v)
            if not includes_zero(sg):
                res.ok("R-TRUTH", {"site": f"{ca.ci.module.relpath}:{s.line}", "value": repr(v), "sign": sg, "why": "value cannot be 0 for well-formed candles"}, nontrivial=f"{ca.ci.name}:{v!r}")
            else:
                res.fail(
                    "R-TRUTH",
                    finding(prop, "R-TRUTH", fn, s.node, f"presence of {v!r} tested by truthiness but its sign domain is {sg}: a legitimate 0.0 reads as missing"),
                )
        for s in ca.sites("truthy-opaque"):
            res.note(f"{ca.ci.module.relpath}:{s.line} truthiness of an unmodelled value {s.data.get('value')!r}")
