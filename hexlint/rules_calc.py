"""Rules over the indicator IR (calc scope): positions, values, writes, loops."""
from __future__ import annotations

import ast
from typing import Dict, List, Optional, Tuple

from . import poly
from .absint import BoolV, DictV, N, NoneV, Num, Obj, Opaque, Path, Site, Str, T, Val, show_cond
from .core import Finding, Result, finding, norm_construct
from .facts import describe_facts, prove_ge0
from .indic import CANDLE_FIELDS, ClassAnalysis, analyse_class
from .model import ClassInfo, Repo
from .poly import A, C, Frac, ONE, ZERO
from .sign import ANY, NEG, NONNEG, NONPOS, POS, ZERO as SZERO, SignEnv, includes_zero, nonzero, s_join

SELF = "<name>"


# ---------------------------------------------------------------------------
# config domain


def cfg_domain(ca: ClassAnalysis) -> List[Frac]:
    """integer period-like parameters are >= 2 (property quantifiers: 'all periods >= 2')"""
    out = []
    for fname, fi in ca.interp.fields.items():
        if not fi.init or fi.annotation is None:
            continue
        ann = ast.unparse(fi.annotation)
        if "int" in ann and "bool" not in ann and fname not in ("round_value",):
            out.append(A("cfg", fname) - C(2))
    return out


def _is_self_name(name: str) -> Tuple[bool, Optional[str]]:
    base, _, fld = name.partition(".")
    return base == SELF, (fld or None)


def _ret_field(ret: Val, fld: Optional[str]) -> Val:
    if fld is None:
        return ret
    if isinstance(ret, DictV):
        return ret.items.get(fld, NoneV())
    return ret


def warmup(ca: ClassAnalysis, fld: Optional[str] = None) -> Frac:
    """inductive warm-up bound W: every path that produces a non-None reading (field) without relying on
    Present(self, t-1) implies t >= W.  Returned bound is a sound lower bound (0 if nothing better)."""
    cands = []
    for p in ca.paths:
        v = _ret_field(p.ret, fld)
        if isinstance(v, NoneV):
            continue
        facts = p.state.facts
        if any(isinstance(c, tuple) and c[0] == "present" and _is_self_name(c[1])[0] and c[2] == T - ONE for c in facts):
            continue
        lb = ZERO
        for c in facts:
            if isinstance(c, tuple) and c[0] == "period" and c[3] == T:
                cand = c[2] - ONE
                lb = cand  # a Period fact on the evaluated index: t >= P-1
        cands.append(lb)
    if not cands:
        return ZERO
    first = cands[0]
    if all(c == first for c in cands):
        return first
    return ZERO


def site_context(ca: ClassAnalysis, site: Site) -> Tuple[tuple, List[Frac]]:
    extra = list(cfg_domain(ca))
    extra.append(T)  # t >= 0
    extra.append(N - ONE - T)  # t <= n-1
    for c in site.facts:
        if isinstance(c, tuple) and c[0] == "present" and c[2] == T - ONE:
            is_self, fld = _is_self_name(c[1])
            if is_self:
                extra.append(T - ONE - warmup(ca, fld))
    return site.facts, extra


def _fn_of(ca: ClassAnalysis):
    return ca.fn if ca.fn is not None else ca.ci


# ---------------------------------------------------------------------------
# R-WRAP / R-CAUSAL


def movement_clamped(repo: Repo, fname: str) -> bool:
    from .analysis_scope import movement_summary

    return movement_summary(repo).get(fname, {}).get("clamped", False)


def check_positions(prop: str, res: Result, repo: Repo, cas: List[ClassAnalysis], want=("R-WRAP", "R-CAUSAL")):
    for ca in cas:
        fn = _fn_of(ca)
        for s in ca.sites("read"):
            d = s.data
            pos: Frac = d["pos"]
            facts, extra = site_context(ca, s)
            label = f"{d.get('how')}({d.get('name')!r} @ {pos!r})"
            if "R-WRAP" in want and not d.get("top"):
                rule = "R-WRAP"
                if d.get("guarded"):
                    res.ok(rule, {"site": f"{fn.where} {label}", "why": "prev_reading/prev_exists return None at index 0 (self-guarding)"})
                elif d.get("movement") and movement_clamped(repo, d["movement"]):
                    res.ok(rule, {"site": f"{fn.where} {label}", "why": f"movement.{d['movement']} clamps its window at 0 (derived from its body)"}, nontrivial=label)
                elif prove_ge0(pos, facts, extra):
                    res.ok(rule, {"site": f"{ca.ci.module.relpath}:{s.line} {label}", "facts": describe_facts(facts)}, nontrivial=f"{ca.ci.name}:{label}")
                else:
                    res.fail(
                        rule,
                        finding(prop, rule, fn, s.node, f"look-back position {pos!r} is not provably >= 0 (a negative position wraps to the newest candle); facts: {describe_facts(facts)}"),
                    )
            if "R-CAUSAL" in want and not d.get("window"):
                rule = "R-CAUSAL"
                if prove_ge0(T - pos, facts, extra):
                    res.ok(rule, {"site": f"{ca.ci.module.relpath}:{s.line} {label}", "goal": f"{pos!r} <= t"})
                else:
                    res.fail(rule, finding(prop, rule, fn, s.node, f"position {pos!r} is not provably <= the evaluated index (reads a later candle); facts: {describe_facts(facts)}"))
        if "R-WRAP" in want:
            # candles_sum answers None for absolute index 0 (its guard is `if not index_`): a formula that does arithmetic on the
            # result must only ask for it at a position >= 1
            for s in ca.sites("candles-sum-at"):
                at_ = s.data["at"]
                facts, extra = site_context(ca, s)
                if prove_ge0(at_ - ONE, facts, extra):
                    res.ok("R-WRAP", {"site": f"{ca.ci.module.relpath}:{s.line} candles_sum at {at_!r}", "why": "position >= 1: the helper returns a number"})
                else:
                    res.fail("R-WRAP", finding(prop, "R-WRAP", fn, s.node, f"candles_sum is asked for position {at_!r}, which is not provably >= 1: at absolute index 0 the helper returns None and the arithmetic on it raises TypeError; facts: {describe_facts(facts)}"))
        for s in ca.sites("candles-window"):
            lo, hi = s.data["lo"], s.data["hi"]
            facts, extra = site_context(ca, s)
            label = f"window(candles[{lo!r}:{hi!r}])"
            if "R-WRAP" in want:
                if prove_ge0(lo, facts, extra):
                    res.ok("R-WRAP", {"site": f"{ca.ci.module.relpath}:{s.line} {label}", "facts": describe_facts(facts)}, nontrivial=f"{ca.ci.name}:{label}")
                else:
                    res.fail("R-WRAP", finding(prop, "R-WRAP", fn, s.node, f"the slice start {lo!r} is not provably >= 0 (a negative start counts from the newest candle); facts: {describe_facts(facts)}"))
            if "R-CAUSAL" in want:
                if prove_ge0(T + ONE - hi, facts, extra):
                    res.ok("R-CAUSAL", {"site": f"{ca.ci.module.relpath}:{s.line} {label}", "goal": f"{hi!r} - 1 <= t"})
                else:
                    res.fail("R-CAUSAL", finding(prop, "R-CAUSAL", fn, s.node, f"the slice end {hi!r} is not provably <= the evaluated index + 1 (the window contains later candles); facts: {describe_facts(facts)}"))
        if "R-CAUSAL" in want:
            for kind, msg in (
                ("len-candles", "len(candles) used inside a calculation: the value depends on how many candles follow the evaluated one"),
                ("default-index", "analysis helper called without the evaluated index: it reads the newest candle"),
                ("candles-slice", "slice of the candle list inside a calculation"),
                ("foreign-candles", "analysis helper called on something other than self.candles"),
            ):
                for s in ca.sites(kind):
                    res.fail("R-CAUSAL", finding(prop, "R-CAUSAL", fn, s.node, msg))
            for s in ca.sites("iter-other"):
                it = s.data.get("iter")
                if isinstance(it, Obj) and it.kind in ("candles", "reversed"):
                    res.fail("R-CAUSAL", finding(prop, "R-CAUSAL", fn, s.node, "un-indexed iteration over the candle list inside a calculation"))


# ---------------------------------------------------------------------------
# signs of readings


class Signs:
    """sign summaries for readings seen from a class: candle fields, input, helpers (inductive)."""

    def __init__(self, repo: Repo, assume_input_positive: bool = True):
        self.repo = repo
        self.assume_input_positive = assume_input_positive
        self._class_sum: Dict[tuple, str] = {}

    def class_summary(self, ci: ClassInfo, input_sign: str) -> str:
        """sign of every non-None numeric reading the class produces, given the sign of its input"""
        key = (ci.module.name, ci.name, input_sign)
        if key in self._class_sum:
            return self._class_sum[key]
        self._class_sum[key] = ANY  # cycle guard
        ca = analyse_class(self.repo, ci)
        best = ANY
        for hyp in (POS, NONNEG):
            ok = True
            for p in ca.paths:
                v = p.ret
                if isinstance(v, NoneV):
                    continue
                if not isinstance(v, Num):
                    ok = False
                    break
                env = SignEnv(self.atom_sign_fn(ca, input_sign, hyp), tuple(p.state.facts), self.lower_fn(ca))
                s = env.frac(v.f)
                if hyp == POS and s != POS:
                    ok = False
                    break
                if hyp == NONNEG and s not in (POS, NONNEG, SZERO):
                    ok = False
                    break
            if ok and ca.paths:
                best = hyp
                break
        self._class_sum[key] = best
        return best

    def helper_input_sign(self, ca: ClassAnalysis, h) -> str:
        iv = h.kwargs.get("input_value")
        if iv is None:
            fi = self.repo.all_fields(h.cls).get("input_value")
            if fi is None or not isinstance(fi.default, ast.Constant):
                return POS  # no input: works on candle fields
            name = fi.default.value
        elif isinstance(iv, Str):
            name = iv.s
        else:
            return ANY
        return self.name_sign(ca, name, SZERO)

    def written_sign(self, ca: ClassAnalysis, name: str) -> Optional[str]:
        """sign of a managed series (field) from the values this class writes into it (inductive: the
        hypothesis is assumed for the series' own earlier values while its written values are checked)"""
        key = (ca.ci.module.name, ca.ci.name, name)
        cache = self.__dict__.setdefault("_ws", {})
        if key in cache:
            return cache[key]
        result = None
        for hyp in (POS, NONNEG, ANY):
            cache[key] = hyp
            got = self._written_sign_once(ca, name)
            if got is None:
                result = None
                break
            leq = {POS: (POS,), NONNEG: (POS, NONNEG, SZERO), ANY: (POS, NONNEG, SZERO, NEG, NONPOS, ANY)}[hyp]
            if got in leq:
                result = hyp if hyp != ANY else got
                break
        cache[key] = result
        return result

    def _written_sign_once(self, ca: ClassAnalysis, name: str) -> Optional[str]:
        base, _, fld = name.partition(".")
        out = None
        found = False
        for p in ca.paths:
            for e in p.state.effects:
                if e[0] in ("wr", "direct-wr") and e[1] == base:
                    v = e[3]
                    if fld:
                        if isinstance(v, DictV):
                            if fld not in v.items:
                                continue
                            v = v.items[fld]
                        elif isinstance(v, NoneV):
                            continue
                        else:
                            return ANY
                    if isinstance(v, NoneV):
                        continue
                    if not isinstance(v, Num):
                        return ANY
                    env = SignEnv(self.atom_sign_fn(ca, POS if self.assume_input_positive else ANY, ANY), tuple(p.state.facts), self.lower_fn(ca))
                    s = env.frac(v.f)
                    s = SignEnv._meet(p.state.sgn.get(v.f), s) if p.state.sgn.get(v.f) else s
                    out = s if not found else s_join(out, s)
                    found = True
        return out if found else None

    def name_sign(self, ca: ClassAnalysis, name: str, _depth=0) -> str:
        base, _, fld = name.partition(".")
        if name in ("open", "high", "low", "close"):
            return POS
        if name == "volume":
            return NONNEG
        if base == "<input>":
            return POS if self.assume_input_positive else ANY
        helpers = ca.tree.by_name()
        if base in helpers:
            h = helpers[base]
            if h.cls is self.repo.managed():
                ws = self.written_sign(ca, name)
                return ws if ws is not None else ANY
            if fld:
                return ANY
            return self.class_summary(h.cls, self.helper_input_sign(ca, h))
        if base == SELF:
            ws = self.written_sign(ca, name)
            return ws if ws is not None else ANY
        return ANY

    def atom_sign_fn(self, ca: ClassAnalysis, input_sign: str, self_prev: str):
        def f(a):
            tag = a[0]
            if tag == "cfg":
                fi = ca.interp.fields.get(a[1])
                ann = ast.unparse(fi.annotation) if fi is not None and fi.annotation is not None else ""
                if "bool" in ann:
                    return ANY
                if a[1] in ("multiplier", "smoothing") or "period" in a[1] or "int" in ann or a[1] == "length":
                    return POS
                return ANY
            if tag == "rd":
                name = a[1]
                base = name.partition(".")[0]
                if base == "<input>":
                    return input_sign
                if name == SELF:
                    return self_prev
                return self.name_sign(ca, name)
            return ANY

        return f

    def lower_fn(self, ca: ClassAnalysis):
        def lb(a):
            if a[0] != "cfg":
                return None
            fi = ca.interp.fields.get(a[1])
            if fi is None or fi.annotation is None or not fi.init:
                return None
            ann = ast.unparse(fi.annotation)
            if "int" in ann and "bool" not in ann and a[1] != "round_value":
                return 2
            return None

        return lb

    def env_for(self, ca: ClassAnalysis, facts: tuple) -> SignEnv:
        return SignEnv(self.atom_sign_fn(ca, POS if self.assume_input_positive else ANY, ANY), tuple(facts), self.lower_fn(ca))

    def analyse(self, ci: ClassInfo) -> ClassAnalysis:
        """second interpretation pass with compositional sign tracking (uses the first pass for helper summaries)"""
        key = (self.repo.digest, ci.module.name, ci.name)
        cache = self.__dict__.setdefault("_ca2", {})
        if key in cache:
            return cache[key]
        ca1 = analyse_class(self.repo, ci)
        from .indic import IndicatorInterp
        from .absint import State, Unmodelled

        it = IndicatorInterp(self.repo, ci, ca1.tree)
        it.sign_env_factory = lambda facts: self.env_for(ca1, facts)
        ca2 = ClassAnalysis(ci, ca1.tree, ca1.fn, [], it, ca1.error)
        if ca1.fn is not None and not ca1.error:
            st = State()
            params = [a.arg for a in ca1.fn.node.args.args]
            if len(params) >= 2:
                st.env[params[1]] = Num(T)
            try:
                ca2.paths = it.run(ca1.fn.node, st)
            except Unmodelled as e:
                ca2.error = str(e)
        cache[key] = ca2
        return ca2


# ---------------------------------------------------------------------------
# R-DIV / R-SQRT / R-TRUTH


def check_div(prop: str, res: Result, repo: Repo, cas: List[ClassAnalysis], signs: Signs):
    for ca1 in cas:
        ca = signs.analyse(ca1.ci)
        fn = _fn_of(ca)
        for s in ca.sites("div"):
            den: Frac = s.data["den"]
            env = signs.env_for(ca1, s.facts)
            sg = env.frac(den)
            if s.data.get("den_sign"):
                sg = SignEnv._meet(s.data["den_sign"], sg)
            if den.is_const() and den.const_value() != 0:
                res.ok("R-DIV", {"site": f"{ca.ci.module.relpath}:{s.line}", "den": repr(den), "why": "non-zero constant"})
            elif nonzero(sg) or env.fact_nonzero(den):
                res.ok("R-DIV", {"site": f"{ca.ci.module.relpath}:{s.line}", "den": repr(den), "sign": sg, "facts": describe_facts(s.facts)}, nontrivial=f"{ca.ci.name}:{den!r}")
            else:
                res.fail("R-DIV", finding(prop, "R-DIV", fn, s.node, f"`{norm_construct(s.node)}`: denominator {den!r} (sign {sg}) is not provably non-zero; facts: {describe_facts(s.facts)}", construct=f"division by {den!r}"))


def decaying_series(ca: ClassAnalysis):
    """names of unrounded (managed) series whose recurrence multiplies the previous value by a factor != 1: such a series can become
    arbitrarily small without being 0 (geometric decay), so a quotient by it can overflow to inf"""
    out = set()
    for s in ca.sites("write"):
        if s.data.get("how") != "set_reading":
            continue
        v = s.data.get("value")
        fields = {"": v} if isinstance(v, Num) else ({"." + k: x for k, x in v.items.items() if isinstance(x, Num)} if isinstance(v, DictV) else {})
        for suffix, x in fields.items():
            series = f"{s.data.get('name')}{suffix}"
            for a in poly.all_atoms(x.f):
                if a[0] == "rd" and a[1] == series:
                    coef = poly.subst(x.f, {a: Frac.atom(a) + ONE}) - x.f
                    if not coef.same(ONE) and not any(b[0] == "rd" for b in poly.all_atoms(coef)):
                        out.add(series)
    return out


def check_nan(prop: str, res: Result, repo: Repo, cas: List[ClassAnalysis]):
    """R-NAN: a division whose numerator and denominator can both overflow (each is itself a quotient by a series that may be
    arbitrarily small) evaluates to inf/inf = NaN; the algebraically equal form with the unbounded quotient only in the denominator is safe"""
    for ca in cas:
        dec = decaying_series(ca)
        fn = _fn_of(ca)

        def may_inf(f: Frac) -> bool:
            if f.d.is_const():
                return False
            return all(any(a[0] == "rd" and a[1] in dec for a, _ in m) for m in f.d.t) and bool(f.d.t)

        for s in ca.sites("div"):
            num, den = s.data.get("num"), s.data.get("den")
            if not isinstance(num, Frac) or not isinstance(den, Frac):
                continue
            if dec and may_inf(num) and may_inf(den):
                res.fail("R-NAN", finding(prop, "R-NAN", fn, s.node, f"numerator {num!r} and denominator {den!r} are both quotients by a geometrically decaying, unrounded series ({sorted(dec)}): when it underflows towards 0 both overflow and the result is inf/inf = NaN (or inf)"))
            else:
                res.ok("R-NAN", {"site": f"{ca.ci.module.relpath}:{s.line}", "decaying series": sorted(dec)}, nontrivial=f"{ca.ci.name}:{s.line}" if dec else None)


def _value_fact(c) -> bool:
    """a comparison on stored readings / candle fields (as opposed to 'is there enough history yet')"""
    if not isinstance(c, tuple) or not c:
        return False
    if c[0] == "not":
        return _value_fact(c[1])
    if c[0] in ("and", "or"):
        return any(_value_fact(x) for x in c[1:])
    if c[0] == "cmp":
        return any(a[0] == "rd" for a in poly.all_atoms(c[2]))
    return False


def check_gap(prop: str, res: Result, repo: Repo, cas: List[ClassAnalysis]):
    """R-GAP: a formula withholds its reading (returns None) only for lack of history -- conditions that never come back once they have
    been left (missing previous reading, window not full, missing input).  A None that depends on the *values* seen is a gap after warm-up.
    (Truthiness tests on values are R-TRUTH's subject and are not repeated here.)"""
    for ca in cas:
        fn = _fn_of(ca)
        n = 0
        for p in ca.paths:
            if not isinstance(p.ret, NoneV):
                continue
            n += 1
            vf = [c for c in p.state.facts if _value_fact(c)]
            if vf:
                res.fail("R-GAP", finding(prop, "R-GAP", fn, p.node or fn.node, f"the reading is None under the value condition [{' & '.join(show_cond(c) for c in vf)[:160]}]: once the series has started, such a candle is a gap", construct=f"None under {' & '.join(show_cond(c) for c in vf)}"[:190]))
            else:
                res.ok("R-GAP", {"class": ca.ci.name, "None only under": " & ".join(show_cond(c) for c in p.state.facts)[:160] or "always"}, nontrivial=f"{ca.ci.name}:{n}")


def _is_none_ret(v) -> bool:
    return isinstance(v, NoneV) or (isinstance(v, DictV) and all(isinstance(x, NoneV) for x in v.items.values()))


def _mentions_at_t(c, name: str) -> bool:
    """a presence / truthiness fact on the series `name` at the evaluated candle"""
    if not isinstance(c, tuple) or not c:
        return False
    if c[0] == "not":
        return _mentions_at_t(c[1], name)
    if c[0] in ("and", "or"):
        return any(_mentions_at_t(x, name) for x in c[1:])
    if c[0] == "present":
        return c[1].partition(".")[0] == name and c[2] == T
    if c[0] == "truthy":
        return any(a[0] == "rd" and str(a[1]).partition(".")[0] == name and a[2] == T for a in poly.all_atoms(c[1])) if not isinstance(c[1], tuple) else (c[1][0] == "rd" and str(c[1][1]).partition(".")[0] == name and c[1][2] == T)
    return False


def check_managed_gap(prop: str, res: Result, repo: Repo, cas: List[ClassAnalysis]):
    """R-GAP (managed series): a formula that feeds a managed series (Managed.set_reading / a direct store that a helper reads) writes it on
    every path that produces a reading; a path that returns a value but skips the write under a condition on the values seen leaves a hole
    in that series, and whatever is computed from it (the smoothing helper of HMA, the signal line of MACD) has a gap after warm-up."""
    for ca in cas:
        fn = _fn_of(ca)
        vp = [(frozenset(e[1] for e in p.state.effects if e[0] in ("wr", "direct-wr")), p) for p in ca.paths if not _is_none_ret(p.ret)]
        allw = set().union(*[w for w, _ in vp]) if vp else set()
        if not allw:
            continue
        bad = 0
        for w, p in vp:
            for name in sorted(allw - w):
                if any(_mentions_at_t(c, name) for c in p.state.facts):
                    continue  # the path presupposes the series already holds this candle's entry
                vf = [c for c in p.state.facts if _value_fact(c)]
                if vf:
                    bad += 1
                    res.fail("R-GAP", finding(prop, "R-GAP", fn, p.node or fn.node, f"a reading is returned without the entry of the managed series {name} that the other paths write, under the value condition [{' & '.join(show_cond(c) for c in vf)[:140]}]: the series has a hole on such a candle and what is computed from it has a gap after warm-up", construct=f"{name} not written under {' & '.join(show_cond(c) for c in vf)}"[:190]))
        if not bad:
            res.ok("R-GAP", {"class": ca.ci.name, "managed series": sorted(allw), "why": "written on every path that returns a reading (or the path reads this candle's entry)"}, nontrivial=f"{ca.ci.name}:managed")


def check_sqrt(prop: str, res: Result, repo: Repo, cas: List[ClassAnalysis], signs: Signs):
    for ca1 in cas:
        ca = signs.analyse(ca1.ci)
        fn = _fn_of(ca)
        for s in ca.sites("sqrt"):
            arg: Frac = s.data["arg"]
            sg = signs.env_for(ca1, s.facts).frac(arg)
            if s.data.get("arg_sign"):
                sg = SignEnv._meet(s.data["arg_sign"], sg)
            if sg in (POS, NONNEG, SZERO):
                res.ok("R-SQRT", {"site": f"{ca.ci.module.relpath}:{s.line}", "arg": repr(arg)[:120], "sign": sg}, nontrivial=f"{ca.ci.name}:sqrt")
            else:
                res.fail("R-SQRT", finding(prop, "R-SQRT", fn, s.node, f"sqrt argument has sign {sg}: a rounding-negative value raises ValueError (clamp it at 0)"))


def _is_dict_valued(ca: ClassAnalysis, name: str) -> bool:
    base, _, fld = name.partition(".")
    if fld:
        return False
    h = ca.tree.by_name().get(base)
    if h is None:
        return False
    vals = []
    for p in ca.paths:
        for e in p.state.effects:
            if e[0] in ("wr", "direct-wr") and e[1] == base:
                vals.append(e[3])
    return bool(vals) and all(isinstance(v, (DictV, NoneV)) for v in vals) and any(isinstance(v, DictV) for v in vals)


def check_truth(prop: str, res: Result, repo: Repo, cas: List[ClassAnalysis], signs: Signs):
    for ca1 in cas:
        ca = signs.analyse(ca1.ci)
        fn = _fn_of(ca)
        for s in ca.sites("truthy"):
            v: Frac = s.data["value"]
            a = poly._single_atom(v)
            if s.data.get("idiom") == "default-zero":
                res.ok("R-TRUTH", {"site": f"{ca.ci.module.relpath}:{s.line}", "why": "`if not x: x = 0` maps None and 0 to the same value"})
                continue
            if a is not None and a[0] == "rd" and _is_dict_valued(ca, a[1]):
                res.ok("R-TRUTH", {"site": f"{ca.ci.module.relpath}:{s.line}", "value": repr(v), "why": "dict-valued managed series (non-empty dict is truthy)"}, nontrivial=f"{ca.ci.name}:{v!r}")
                continue
            sg = signs.env_for(ca1, s.facts).frac(v)
            if s.data.get("value_sign"):
                sg = SignEnv._meet(s.data["value_sign"], sg)
            if not includes_zero(sg):
                res.ok("R-TRUTH", {"site": f"{ca.ci.module.relpath}:{s.line}", "value": repr(v), "sign": sg, "why": "value cannot be 0 for well-formed candles"}, nontrivial=f"{ca.ci.name}:{v!r}")
            else:
                res.fail(
                    "R-TRUTH",
                    finding(prop, "R-TRUTH", fn, s.node, f"`{norm_construct(s.node)}`: presence of {v!r} tested by truthiness but its sign domain is {sg}: a legitimate 0.0 reads as missing", construct=f"truthiness of {v!r}"),
                )
        for s in ca.sites("truthy-opaque"):
            res.note(f"{ca.ci.module.relpath}:{s.line} truthiness of an unmodelled value {s.data.get('value')!r}")


# ---------------------------------------------------------------------------
# R-WRITE / R-OWN(calc) / R-WIRE / R-BOUND / R-HISTORY(calc sites) / R-TAINT


def check_writes(prop: str, res: Result, repo: Repo, cas: List[ClassAnalysis]):
    for ca in cas:
        fn = _fn_of(ca)
        names = set(ca.tree.by_name()) | {SELF}
        for s in ca.sites("write"):
            d = s.data
            pos, name = d["pos"], d["name"]
            if pos == T and name in names:
                res.ok("R-WRITE", {"site": f"{ca.ci.module.relpath}:{s.line} {d['how']}({name!r} @ t)", "why": "write targets the evaluated index and one of the indicator's own series"}, nontrivial=f"{ca.ci.name}:{name}")
            elif pos != T:
                res.fail("R-WRITE", finding(prop, "R-WRITE", fn, s.node, f"reading written at position {pos!r}, not at the evaluated index: a closed candle is repainted"))
            else:
                res.fail("R-WRITE", finding(prop, "R-WRITE", fn, s.node, f"write to series {name!r}, which is not this indicator's own name or one of its helpers"))
        for s in ca.sites("candle-store"):
            res.fail("R-OWN", finding(prop, "R-OWN", fn, s.node, f"calculation code stores to candle.{s.data['attr']}: indicators must never change candle data"))
        for s in ca.sites("sub-store"):
            res.fail("R-WRITE", finding(prop, "R-WRITE", fn, s.node, "store through a subscript the analysis cannot attribute to the indicator's own series"))


def _written_fields(ca: ClassAnalysis, base: str):
    fields, scalar = set(), False
    for p in ca.paths:
        for e in p.state.effects:
            if e[0] in ("wr", "direct-wr") and e[1] == base:
                if isinstance(e[3], DictV):
                    fields |= set(e[3].items)
                elif not isinstance(e[3], NoneV):
                    scalar = True
        if base == SELF and isinstance(p.ret, DictV):
            fields |= set(p.ret.items)
    return fields, scalar


def check_wire(prop: str, res: Result, repo: Repo, cas: List[ClassAnalysis]):
    for ca in cas:
        fn = _fn_of(ca)
        helpers = ca.tree.by_name()
        for node, why in ca.tree.problems:
            res.errors.append(f"{getattr(repo.find_method(ca.ci, '_initialise'), 'where', ca.ci.name)} R-WIRE {ca.ci.name}._initialise: composition statement the analysis cannot interpret ({why}): `{norm_construct(node)[:90]}`")
        for s in ca.sites("dangling-managed"):
            res.fail("R-WIRE", finding(prop, "R-WIRE", fn, s.node, f"managed_indicators[{s.data['key']!r}] is never registered in _initialise (KeyError at run time)"))
        for s in ca.sites("read"):
            name = s.data.get("name")
            if name is None:
                continue
            base, _, fld = name.partition(".")
            label = f"{ca.ci.module.relpath}:{s.line} {s.data.get('how')}({name!r})"
            if base in CANDLE_FIELDS or base == "<input>" or base == "timestamp":
                res.ok("R-WIRE", {"site": label, "resolves": "candle field / input"})
                continue
            if base == SELF or base in helpers:
                if fld:
                    fields, _ = _written_fields(ca, base)
                    h = helpers.get(base)
                    if h is not None and h.cls is not repo.managed():
                        # dict-valued helper of another class: fields are that class's returned keys
                        hca = analyse_class(repo, h.cls)
                        fields = set()
                        for p in hca.paths:
                            if isinstance(p.ret, DictV):
                                fields |= set(p.ret.items)
                    if fld in fields:
                        res.ok("R-WIRE", {"site": label, "resolves": f"field {fld!r} of {base!r}"}, nontrivial=f"{ca.ci.name}:{name}")
                    else:
                        res.fail("R-WIRE", finding(prop, "R-WIRE", fn, s.node, f"reads field {fld!r} of {base!r} but only {sorted(fields)} are ever written: the reading is always None"))
                else:
                    res.ok("R-WIRE", {"site": label, "resolves": "own series" if base == SELF else helpers[base].describe()}, nontrivial=f"{ca.ci.name}:{name}")
                continue
            res.fail("R-WIRE", finding(prop, "R-WIRE", fn, s.node, f"reads {name!r}, which is neither a candle field, the input, the indicator's own name nor one of its helpers {sorted(helpers)}"))
        for s in ca.sites("period-test"):
            name = s.data["name"]
            base = name.partition(".")[0]
            if not (base in CANDLE_FIELDS or base == "<input>" or base == SELF or base in helpers):
                res.fail("R-WIRE", finding(prop, "R-WIRE", fn, s.node, f"reading_period on {name!r}, which resolves to nothing: the guard is always False"))


def _count_bounded(count: Frac, facts: tuple, extra: List[Frac]) -> Tuple[bool, str]:
    ats = poly.all_atoms(count)
    free = {a for a in ats if a[0] in ("t", "n", "idx", "raw")}
    cfgs = [a for a in ats if a[0] == "cfg"]
    if not free:
        return True, "config/constant expression"
    cands = []
    tot = C(2)
    for a in cfgs:
        cands.append(Frac.atom(a) + C(2))
        tot = tot + Frac.atom(a)
    cands.append(tot)
    cands.append(C(16))
    for k in cands:
        if prove_ge0(k - count, facts, extra):
            return True, f"<= {k!r}"
    return False, f"depends on {sorted(poly.show_atom(a) for a in free)}"


def check_bound(prop: str, res: Result, repo: Repo, cas: List[ClassAnalysis]):
    for ca in cas:
        fn = _fn_of(ca)
        for s in ca.sites("loop"):
            count = s.data.get("count")
            what = s.data.get("what")
            if count is None:
                it = s.data.get("iter")
                if isinstance(it, Obj) and it.kind in ("candles", "reversed", "enumerate"):
                    res.fail("R-BOUND", finding(prop, "R-BOUND", fn, s.node, "iteration over the whole candle list inside a calculation: work grows with history"))
                else:
                    res.note(f"{ca.ci.module.relpath}:{s.line} loop over {it!r}: bounded by the size of a local value")
                continue
            facts, extra = site_context(ca, s)
            ok, why = _count_bounded(count, facts, extra)
            if ok:
                res.ok("R-BOUND", {"site": f"{ca.ci.module.relpath}:{s.line} {what}", "trips": repr(count), "bound": why}, nontrivial=f"{ca.ci.name}:{s.line}:{what}")
            else:
                res.fail("R-BOUND", finding(prop, "R-BOUND", fn, s.node, f"loop/reduction trip count {count!r} {why}: work per candle grows with the history length"))
        for s in ca.sites("loop-stmt"):
            res.fail("R-BOUND", finding(prop, "R-BOUND", fn, s.node, "loop whose trip count the analysis cannot bound by the configuration"))
        for s in ca.sites("iter-other"):
            it = s.data.get("iter")
            if isinstance(it, Obj) and it.kind in ("candles", "reversed"):
                res.fail("R-BOUND", finding(prop, "R-BOUND", fn, s.node, "iteration over the whole candle list inside a calculation"))
        for s in ca.sites("candles-slice"):
            res.fail("R-BOUND", finding(prop, "R-BOUND", fn, s.node, "slice of the candle list inside a calculation (length not bounded by the configuration)"))
        for s in ca.sites("base-call"):
            m = s.data.get("method")
            if m in ("as_list", "reading_count", "purge", "recalculate", "calculate", "append", "calculate_index", "find_indicator"):
                res.fail("R-HISTORY", finding(prop, "R-HISTORY", fn, s.node, f"{m}() called from a formula: it walks or recomputes the whole history on every candle"))
            else:
                res.note(f"{ca.ci.module.relpath}:{s.line} base method self.{m}() called from a formula")
        for s in ca.sites("len-candles"):
            res.fail("R-BOUND", finding(prop, "R-BOUND", fn, s.node, "len(candles) used inside a calculation"))


def _has_pos_atom(f) -> bool:
    if not isinstance(f, Frac):
        return False
    for a in f.atoms():
        if a[0] in ("t", "n"):
            return True
        if a[0] == "bv" and isinstance(a[1], str):
            return True
        if a[0] in ("fn", "pow", "ite"):
            if any(_has_pos_atom(x) for x in a[1:] if isinstance(x, Frac)):
                return True
            if a[0] == "ite" and _cond_has_pos(a[1]):
                return True
        if a[0] == "sum" and _has_pos_atom(a[3]):
            return True
        if a[0] == "red" and _has_pos_atom(a[4]):
            return True
    return False


def _cond_has_pos(c) -> bool:
    if not isinstance(c, tuple):
        return False
    if c[0] == "cmp":
        return _has_pos_atom(c[2])
    if c[0] in ("and", "or", "not"):
        return any(_cond_has_pos(x) for x in c[1:])
    return False


def _val_fracs(v: Val):
    if isinstance(v, Num):
        yield v.f
    elif isinstance(v, DictV):
        for x in v.items.values():
            yield from _val_fracs(x)
    elif isinstance(v, BoolV) and isinstance(v.cond, tuple):
        yield from _cond_fracs(v.cond)


def _cond_fracs(c):
    if isinstance(c, tuple):
        if c[0] == "cmp":
            yield c[2]
        elif c[0] in ("and", "or", "not"):
            for x in c[1:]:
                yield from _cond_fracs(x)


def check_taint(prop: str, res: Result, repo: Repo, cas: List[ClassAnalysis], branches_too: bool):
    """R-TAINT: the absolute position never becomes (part of) a value; for moving averages it must not decide a branch either"""
    for ca in cas:
        fn = _fn_of(ca)
        bad = False
        for p in ca.paths:
            vals = list(_val_fracs(p.ret))
            for e in p.state.effects:
                if e[0] in ("wr", "direct-wr"):
                    vals.extend(_val_fracs(e[3]))
            for f in vals:
                if _has_pos_atom(f):
                    bad = True
                    res.fail("R-TAINT", finding(prop, "R-TAINT", fn, p.node or fn.node, f"the absolute candle position enters a stored value: {repr(f)[:120]}", construct=f"value depends on index: {repr(f)[:100]}"))
            if branches_too:
                for c in p.state.facts:
                    if isinstance(c, tuple) and c[0] in ("cmp",) and _has_pos_atom(c[2]):
                        bad = True
                        res.fail("R-TAINT", finding(prop, "R-TAINT", fn, fn.node, f"a branch of the formula compares the absolute candle position ({show_cond(c)}): the result depends on where the input series starts", construct=f"branch on index: {show_cond(c)}"))
        if not bad:
            res.ok("R-TAINT", {"site": f"{fn.where} {ca.ci.name}", "why": "index occurs only in position slots of readings", "paths": len(ca.paths)}, nontrivial=ca.ci.name)
