"""R-ORDERED: arithmetic on a helper reading that is covered only by ANOTHER helper's presence test.

`macd = reading(EMA_fast) - reading(EMA_slow)` under `if reading(EMA_slow) is not None` is total only because the fast EMA is warm no later
than the slow one.  The rule looks at every arithmetic operand (abstract-interpretation site `rd-arith`) that is a helper reading at the
evaluated candle, is not itself known present on the path, and is dominated by the presence of a sibling helper: when the two helpers are
*comparable* -- same class, same settings except the period-like ones, inputs equal or sibling fields of one managed series whose own chains
are comparable -- the guarded helper's periods must be provably <= the guard's, over the configuration domain (periods >= 2) and the
ordering that the class's `_validate_fields` establishes (decided by evaluating the hook on ordered / reversed / equal sample values).
Helpers that are not comparable (different classes, e.g. HighLowAverage under an ATR guard) are out of the rule's reach and listed as such.
"""
from __future__ import annotations

import ast
from typing import Dict, List, Optional, Tuple

from . import poly
from .absint import Num, Str
from .core import Result, finding
from .poly import A, C, Frac
from .rules_calc import _fn_of, cfg_domain
from .linear import entails, lin_of

PERIODISH = ("period", "length", "window")


def _is_periodish(k: str) -> bool:
    return any(p in k for p in PERIODISH)


def validate_orderings(repo, ci) -> Tuple[Optional[set], str]:
    """pairs (a, b) of integer settings with a <= b after `_validate_fields`, decided by evaluating the hook with the interpreter on
    sample values (reversed, ordered, equal).  None when the hook cannot be evaluated."""
    from .convsem import Interp, ObjV, Undecided, Raised

    fields = [k for k, fi in repo.all_fields(ci).items() if fi.init and fi.annotation is not None and "int" in ast.unparse(fi.annotation) and "bool" not in ast.unparse(fi.annotation)]
    fields = [f for f in fields if _is_periodish(f)]
    m = repo.find_method(ci, "_validate_fields")
    if m is None or m.cls is repo.indicator_base() or len(fields) < 2:
        return set(), "no validation hook"
    out = set()
    try:
        for i, a in enumerate(fields):
            for b in fields[i + 1:]:
                for x, y in ((a, b), (b, a)):
                    holds = True
                    for va, vb in ((7, 3), (3, 7), (5, 5)):
                        it = Interp(repo, ci.module.name, ci.name)
                        attrs = {f: 4 for f in fields}
                        for f, fi in repo.all_fields(ci).items():
                            attrs.setdefault(f, None)
                        attrs[x], attrs[y] = va, vb
                        obj = ObjV("self", attrs, ci.name)
                        it.call_function(m.node, [], {}, bound_first=obj)
                        ra, rb = obj.attrs.get(x), obj.attrs.get(y)
                        if not (isinstance(ra, int) and isinstance(rb, int) and ra <= rb):
                            holds = False
                            break
                    if holds:
                        out.add((x, y))
    except (Undecided, Raised, RecursionError) as e:
        return None, f"validation hook not evaluable: {e}"
    except Exception as e:  # interpreter limits
        return None, f"validation hook not evaluable: {type(e).__name__}: {e}"
    return out, "evaluated"


def implies_nonneg(goal: Frac, extra: List[Frac]) -> bool:
    g = lin_of(goal)
    if g is None:
        return False
    facts = [l for l in (lin_of(e) for e in extra) if l is not None]
    return entails(facts, g)


def _int_le(x: Frac, y: Frac, extra: List[Frac]) -> bool:
    """x <= y under extra (list of fracs >= 0); knows int(c*P) <= P for 0 < c <= 1, P >= 0"""
    d = y - x
    try:
        if implies_nonneg(d, extra):
            return True
    except Exception:
        pass
    a = poly._single_atom(x)
    if a is not None and a[0] == "fn" and a[1] == "int" and len(a) >= 3:
        inner = a[2]
        try:
            # int(v) <= v for v >= 0, and v <= y
            if implies_nonneg(inner, extra) and implies_nonneg(y - inner, extra):
                return True
        except Exception:
            pass
    return False


def _comparable(tree, x, y, extra, depth=0) -> Tuple[Optional[bool], str]:
    """None: not comparable; True: x warm no later than y; False: comparable but not ordered"""
    if x.cls is not y.cls:
        return None, f"{x.cls.name} vs {y.cls.name}"
    kx = {k: v for k, v in x.kwargs.items() if k != "fullname_override"}
    ky = {k: v for k, v in y.kwargs.items() if k != "fullname_override"}
    if set(kx) != set(ky):
        return None, "different settings"
    ok = True
    why = []
    for k in sorted(kx):
        vx, vy = kx[k], ky[k]
        if k == "input_value" or (isinstance(vx, Str) and isinstance(vy, Str)):
            if not (isinstance(vx, Str) and isinstance(vy, Str)):
                return None, "input not a name"
            if vx.s == vy.s:
                continue
            bx, _, fx = vx.s.partition(".")
            by, _, fy = vy.s.partition(".")
            names = tree.by_name()
            if fx and fy and bx == by:
                why.append(f"inputs are fields of one series {bx}")
                continue
            hx, hy = names.get(bx), names.get(by)
            if hx is not None and hy is not None and depth < 4 and not fx and not fy:
                r, w = _comparable(tree, hx, hy, extra, depth + 1)
                if r is None:
                    return None, w
                ok = ok and r
                why.append(f"inputs {bx} / {by}: {w}")
                continue
            return None, f"inputs {vx.s} / {vy.s}"
        if isinstance(vx, Num) and isinstance(vy, Num):
            if vx.f == vy.f:
                continue
            if _is_periodish(k):
                if _int_le(vx.f, vy.f, extra):
                    why.append(f"{k}: {vx.f!r} <= {vy.f!r}")
                else:
                    ok = False
                    why.append(f"{k}: {vx.f!r} <= {vy.f!r} not provable")
                continue
            return None, f"setting {k} differs"
        if repr(vx) == repr(vy):
            continue
        return None, f"setting {k} differs"
    return ok, "; ".join(why) or "same settings"


def check_ordered(prop: str, res: Result, repo, cas):
    for ca in cas:
        names = ca.tree.by_name() if ca.tree is not None else {}
        if not names:
            continue
        fn = _fn_of(ca)
        orderings = None
        seen = set()
        for s in ca.sites("rd-arith"):
            pres = [(c[1], c[2]) for c in s.facts if isinstance(c, tuple) and c[0] == "present"]
            pres += [(c[1][1], c[1][2]) for c in s.facts if isinstance(c, tuple) and c[0] == "truthy" and isinstance(c[1], tuple) and len(c[1]) >= 3 and c[1][0] == "rd"]
            for a in s.data["atoms"]:
                nm, pos = a[1], a[2]
                if nm not in names or (nm, pos) in pres:
                    continue
                guards = [g for g, gp in pres if g in names and gp == pos and g != nm]
                if not guards:
                    continue
                key = (nm, tuple(sorted(guards)))
                if key in seen:
                    continue
                seen.add(key)
                if orderings is None:
                    orderings, how = validate_orderings(repo, ca.ci)
                extra = list(cfg_domain(ca))
                for (lo, hi) in (orderings or ()):
                    extra.append(A("cfg", hi) - A("cfg", lo))
                verdicts = [(_comparable(ca.tree, names[nm], names[g], extra), g) for g in guards]
                site = f"{ca.ci.module.relpath}:{s.line} {ca.ci.name}"
                if any(v[0] is True for v, _ in verdicts):
                    (v, w), g = next((vw, g) for vw, g in verdicts if vw[0] is True)
                    res.ok("R-ORDERED", {"site": site, "operand": nm, "covered by": g, "why": w, "validate": how}, nontrivial=f"{ca.ci.name}:{nm}")
                elif any(v[0] is False for v, _ in verdicts):
                    if orderings is None:
                        res.errors.append(f"{site}: R-ORDERED cannot decide ({how})")
                        continue
                    (v, w), g = next((vw, g) for vw, g in verdicts if vw[0] is False)
                    res.fail("R-ORDERED", finding(prop, "R-ORDERED", fn, s.node, f"arithmetic on the reading {nm} is covered only by the presence of {g}, which is the same kind of helper but is not provably the slower one ({w}; orderings established by _validate_fields: {sorted(orderings) or 'none'}): with the periods the other way round {nm} is still None when the guard holds and the subtraction raises TypeError", construct=f"{nm} under present({g})"))
                else:
                    res.ok("R-ORDERED", {"site": site, "operand": nm, "guards": guards, "why": "helpers of different kinds: outside the rule (" + verdicts[0][0][1] + ")"})
