"""R-VN / R-WIRE: compare each shipped indicator with its reference definition (spec/refs.py) by normal forms."""
from __future__ import annotations

import os
from typing import Dict, List, Optional, Tuple

from . import poly
from .absint import BoolV, DictV, NoneV, Num, Obj, Opaque, Path, Str, T, Val, c_not, show_cond
from .core import Result, finding
from .indic import ClassAnalysis, CompTree, Helper, analyse_class
from .model import AnalysisError, ClassInfo, Repo
from .poly import Frac

SPEC_MOD = "hexital._spec.refs"
SPEC_PATH = os.path.join(os.path.dirname(os.path.abspath(__file__)), "spec", "refs.py")


def load_refs(repo: Repo):
    return repo.load_extra(SPEC_PATH, SPEC_MOD)


def ref_for(repo: Repo, ci: ClassInfo) -> Optional[ClassInfo]:
    mi = load_refs(repo)
    return mi.classes.get("Ref_" + ci.name)


def _is_wild(v: Val) -> bool:
    return isinstance(v, Opaque) and "unspecified" in v.why


def same_val(a: Val, b: Val) -> Tuple[bool, str]:
    if _is_wild(a) or _is_wild(b):
        return True, ""
    if isinstance(a, NoneV) and isinstance(b, NoneV):
        return True, ""
    if isinstance(a, Num) and isinstance(b, Num):
        if a.f == b.f or a.f.same(b.f):
            return True, ""
        return False, f"{_short(a.f)}  !=  {_short(b.f)}"
    if isinstance(a, BoolV) and isinstance(b, BoolV):
        return (a.cond == b.cond), f"{show_cond(a.cond)[:120]} != {show_cond(b.cond)[:120]}"
    if isinstance(a, DictV) and isinstance(b, DictV):
        if set(a.items) != set(b.items):
            return False, f"fields {sorted(a.items)} != {sorted(b.items)}"
        for k in a.items:
            ok, why = same_val(a.items[k], b.items[k])
            if not ok:
                return False, f"field {k!r}: {why}"
        return True, ""
    if isinstance(a, Str) and isinstance(b, Str):
        return a.s == b.s, f"{a.s!r} != {b.s!r}"
    return False, f"{_short(a)} vs {_short(b)}"


def _short(x) -> str:
    s = repr(x)
    return s if len(s) <= 150 else s[:147] + "..."


def compatible(f1, f2) -> bool:
    s2 = set(f2)
    for c in f1:
        if c_not(c) in s2:
            return False
    s1 = set(f1)
    for c in f2:
        if c_not(c) in s1:
            return False
    return True


def final_writes(p: Path) -> Dict[str, Val]:
    out: Dict[str, Val] = {}
    for e in p.state.effects:
        if e[0] in ("wr", "direct-wr"):
            out[e[1]] = e[3]
    return out


def drives(p: Path) -> List[str]:
    return [e[1] for e in p.state.effects if e[0] == "drive"]


def tree_rows(tree: CompTree):
    rows = []
    for h in tree.all():
        kw = tuple(sorted((k, repr(v)) for k, v in h.kwargs.items() if k != "fullname_override"))
        rows.append((h.role, h.key, h.cls.name, kw, h.name, h.parent.name if h.parent else None))
    return sorted(rows, key=repr)


def compare_class(prop: str, res: Result, repo: Repo, ci: ClassInfo) -> None:
    ref = ref_for(repo, ci)
    if ref is None:
        res.errors.append(f"no reference definition Ref_{ci.name} in spec/refs.py")
        return
    ca, cr = analyse_class(repo, ci), analyse_class(repo, ref)
    if ca.error or cr.error:
        res.errors.append(f"{ci.name}: {ca.error or cr.error}")
        return
    fn = ca.fn or ci
    # ---- wiring
    rows_c, rows_r = tree_rows(ca.tree), tree_rows(cr.tree)
    if rows_c == rows_r:
        res.ok("R-WIRE", {"class": ci.name, "helpers": [f"{r[0]}:{r[2]} as {r[4]}" for r in rows_c]}, nontrivial=f"{ci.name}:tree" if rows_c else None)
    else:
        missing = [r for r in rows_r if r not in rows_c]
        extra = [r for r in rows_c if r not in rows_r]
        init = repo.find_method(ci, "_initialise") or ci
        res.fail("R-WIRE", finding(prop, "R-WIRE", init, getattr(init, "node", None), f"helper wiring differs from the definition: expected {[(r[0], r[2], dict(r[3]), r[4]) for r in missing]}; found {[(r[0], r[2], dict(r[3]), r[4]) for r in extra]}", construct=f"{ci.name} composition: " + "; ".join(f"{r[2]}({dict(r[3])}) as {r[4]}" for r in extra)[:150]))
    # ---- formulas
    for pc in ca.paths:
        fc = tuple(pc.state.facts)
        matches = [pr for pr in cr.paths if compatible(fc, tuple(pr.state.facts))]
        guard = " & ".join(show_cond(c) for c in fc)[:200] or "always"
        if not matches:
            res.fail("R-VN", finding(prop, "R-VN", fn, pc.node or fn.node, f"no case of the definition is compatible with the guard [{guard}]", construct=f"{ci.name} guard: {guard}"[:190]))
            continue
        for pr in matches:
            rguard = " & ".join(show_cond(c) for c in pr.state.facts)[:160] or "always"
            ok, why = same_val(pc.ret, pr.ret)
            if not ok:
                res.fail("R-VN", finding(prop, "R-VN", fn, pc.node or fn.node, f"under [{guard}] the reading differs from the definition (case [{rguard}]): {why}", construct=f"{ci.name} value under [{guard}]"[:190]))
                continue
            wc, wr = final_writes(pc), final_writes(pr)
            bad = None
            if set(wc) != set(wr):
                bad = f"series written {sorted(wc)} != {sorted(wr)}"
            else:
                for k in wc:
                    ok2, why2 = same_val(wc[k], wr[k])
                    if not ok2:
                        bad = f"value written to {k}: {why2}"
                        break
            if bad is None and sorted(drives(pc)) != sorted(drives(pr)):
                bad = f"helpers driven {drives(pc)} != {drives(pr)}"
            if bad:
                res.fail("R-VN", finding(prop, "R-VN", fn, pc.node or fn.node, f"under [{guard}] the helper state differs from the definition: {bad}", construct=f"{ci.name} state under [{guard}]"[:190]))
            else:
                res.ok("R-VN", {"class": ci.name, "guard": guard, "value": _short(pc.ret), "definition case": rguard}, nontrivial=f"{ci.name}:{guard}")
    # every definition case must be reachable by some code path
    for pr in cr.paths:
        fr = tuple(pr.state.facts)
        if not any(compatible(tuple(pc.state.facts), fr) for pc in ca.paths):
            rguard = " & ".join(show_cond(c) for c in fr)[:200]
            res.fail("R-VN", finding(prop, "R-VN", fn, fn.node, f"the definition's case [{rguard}] has no counterpart in the code", construct=f"{ci.name} missing case [{rguard}]"[:190]))
