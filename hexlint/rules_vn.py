"""R-VN / R-WIRE: compare each shipped indicator with its reference definition (spec/refs.py) by normal forms."""
from __future__ import annotations

import os
from typing import Dict, List, Optional, Tuple

from . import poly
from .absint import BoolV, DictV, NoneV, Num, Obj, Opaque, Path, Str, T, Val, c_not, show_cond
from .core import Result, finding
from .indic import ClassAnalysis, CompTree, Helper, analyse_class
from .model import AnalysisError, ClassInfo, Repo
from .poly import Frac

SPEC_MOD = "hexital._spec.refs"
SPEC_PATH = os.path.join(os.path.dirname(os.path.abspath(__file__)), "spec", "refs.py")


def load_refs(repo: Repo):
    return repo.load_extra(SPEC_PATH, SPEC_MOD)


def ref_for(repo: Repo, ci: ClassInfo) -> Optional[ClassInfo]:
    mi = load_refs(repo)
    return mi.classes.get("Ref_" + ci.name)


def _is_wild(v: Val) -> bool:
    return isinstance(v, Opaque) and "unspecified" in v.why


def simplify_under(v, facts):
    """a reading that the case's facts say is absent *is* None"""
    absent = {(c[1][1], c[1][2]) for c in facts if isinstance(c, tuple) and c and c[0] == "not" and isinstance(c[1], tuple) and c[1] and c[1][0] == "present"}
    if not absent:
        return v

    def rec(y):
        if isinstance(y, Num):
            a = poly._single_atom(y.f)
            if a is not None and a[0] == "rd" and (a[1], a[2]) in absent:
                return NoneV()
            return y
        if isinstance(y, DictV):
            return DictV({k: rec(x) for k, x in y.items.items()})
        return y

    return rec(v)


def same_val(a: Val, b: Val) -> Tuple[bool, str]:
    if _is_wild(a) or _is_wild(b):
        return True, ""
    if isinstance(a, NoneV) and isinstance(b, NoneV):
        return True, ""
    if isinstance(a, Num) and isinstance(b, Num):
        if a.f == b.f or a.f.same(b.f):
            return True, ""
        return False, f"{_short(a.f)}  !=  {_short(b.f)}"
    if isinstance(a, BoolV) and isinstance(b, BoolV):
        return (a.cond == b.cond), f"{show_cond(a.cond)[:120]} != {show_cond(b.cond)[:120]}"
    if isinstance(a, DictV) and isinstance(b, DictV):
        if set(a.items) != set(b.items):
            return False, f"fields {sorted(a.items)} != {sorted(b.items)}"
        for k in a.items:
            ok, why = same_val(a.items[k], b.items[k])
            if not ok:
                return False, f"field {k!r}: {why}"
        return True, ""
    if isinstance(a, Str) and isinstance(b, Str):
        return a.s == b.s, f"{a.s!r} != {b.s!r}"
    return False, f"{_short(a)} vs {_short(b)}"


def _short(x) -> str:
    s = repr(x)
    return s if len(s) <= 150 else s[:147] + "..."


def compatible(f1, f2) -> bool:
    s2 = set(f2)
    for c in f1:
        if c_not(c) in s2:
            return False
    s1 = set(f1)
    for c in f2:
        if c_not(c) in s1:
            return False
    return True


def final_writes(p: Path) -> Dict[str, Val]:
    out: Dict[str, Val] = {}
    for e in p.state.effects:
        if e[0] in ("wr", "direct-wr"):
            out[e[1]] = e[3]
    return out


def drives(p: Path) -> List[str]:
    return [e[1] for e in p.state.effects if e[0] == "drive"]


def tree_rows(tree: CompTree):
    """structural rows of the composition (helper names and managed keys are internal and not compared)"""
    ids = helper_ids(tree)
    rows = []
    for h in tree.all():
        rows.append((h.role, h.cls.name, ids[h.name], h.describe()))
    return sorted(rows, key=lambda r: r[:3])


def helper_ids(tree: CompTree) -> Dict[str, str]:
    """canonical, name-independent ids of the helpers: by structural position (role, class, non-name kwargs, parent)"""
    ids: Dict[str, str] = {}

    def sig(h: Helper):
        kw = []
        for k, v in sorted(h.kwargs.items()):
            if k in ("fullname_override", "name_suffix"):
                continue
            r = repr(v)
            for nm, i in sorted(ids.items(), key=lambda kv: -len(kv[0])):
                r = r.replace(nm, i)
            kw.append((k, r))
        return (h.role if h.role != "managed" else "managed", h.cls.name, tuple(kw), ids.get(h.parent.name) if h.parent else None)

    todo = list(tree.all())
    # managed series first (their names occur in the inputs of the others), then by depth
    todo.sort(key=lambda h: (h.depth, 0 if h.cls.name == "Managed" else 1))
    counters: Dict[tuple, int] = {}
    for h in todo:
        s = sig(h)
        k = counters.get(s, 0)
        counters[s] = k + 1
        ids[h.name] = f"#h[{s[0]}:{s[1]}:{','.join(f'{a}={b}' for a, b in s[2])}:{s[3]}:{k}]"
    return ids


def rename(x, mp: Dict[str, str]):
    """rewrite helper names inside terms / conditions / values (longest name first; dotted fields kept)"""
    if not mp:
        return x
    keys = sorted(mp, key=len, reverse=True)

    def rn(name: str) -> str:
        base, dot, fld = name.partition(".")
        if base in mp:
            return mp[base] + dot + fld
        return name

    def rec(y):
        if isinstance(y, Frac):
            atoms = [a for a in poly.all_atoms(y) | y.atoms() if a[0] == "rd" and rn(a[1]) != a[1]]
            if not atoms:
                return y
            m = {a: poly.mk_rd(rn(a[1]), rec(a[2])) for a in atoms}
            return poly.subst(y, m)
        if isinstance(y, tuple):
            if y and y[0] in ("present", "period", "isnum", "isdict", "isinstance") and len(y) > 1 and isinstance(y[1], str):
                return (y[0], rn(y[1])) + tuple(rec(z) for z in y[2:])
            return tuple(rec(z) for z in y)
        if isinstance(y, Num):
            return Num(rec(y.f))
        if isinstance(y, BoolV):
            return BoolV(rec(y.cond) if isinstance(y.cond, tuple) else y.cond)
        if isinstance(y, DictV):
            return DictV({k: rec(v) for k, v in y.items.items()})
        if isinstance(y, Obj) and y.kind == "ite":
            return Obj("ite", tuple(rec(z) for z in y.data))
        return y

    return rec(x)


def _subst_val(v, mp):
    def rec(y):
        if isinstance(y, Frac):
            return poly.subst(y, mp)
        if isinstance(y, tuple):
            return tuple(rec(z) for z in y)
        if isinstance(y, Num):
            return Num(rec(y.f))
        if isinstance(y, BoolV):
            return BoolV(rec(y.cond) if isinstance(y.cond, tuple) else y.cond)
        if isinstance(y, DictV):
            return DictV({k: rec(x) for k, x in y.items.items()})
        return y

    return rec(v)


def _fold(c):
    """re-normalise a comparison fact after substitution (constant folding, canonical sign)"""
    if isinstance(c, tuple) and c and c[0] == "cmp" and isinstance(c[2], Frac):
        from .absint import mk_cmp

        return mk_cmp(c[1], c[2], poly.ZERO)
    if isinstance(c, tuple) and c and c[0] == "not":
        x = _fold(c[1])
        return (not x) if isinstance(x, bool) else ("not", x)
    return c


def _top_ites(v):
    out = []
    if isinstance(v, Num):
        out += [a for a in sorted(v.f.atoms(), key=repr) if a[0] == "ite"]
    elif isinstance(v, DictV):
        for k in sorted(v.items):
            out += _top_ites(v.items[k])
    return out


def _find_objite(v):
    """first conditional *value object* (arms of different kinds, e.g. number / None) inside a value"""
    if isinstance(v, Obj) and v.kind == "ite":
        return v
    if isinstance(v, DictV):
        for k in sorted(v.items):
            r = _find_objite(v.items[k])
            if r is not None:
                return r
    return None


def _replace_obj(v, target, new):
    if v is target:
        return new
    if isinstance(v, DictV):
        return DictV({k: _replace_obj(x, target, new) for k, x in v.items.items()})
    return v


def expand_cases(facts, ret, writes, max_split=4):
    """a value that is a conditional expression `ite(c, a, b)` is the same reading as two guarded cases (c -> a, not c -> b): expand the
    top-level conditionals of the returned and written values so that `x = a if c else b` and `if c: x = a else: x = b` compare equal"""
    work = [(tuple(facts), ret, dict(writes), 0)]
    out = []
    while work:
        f, r, w, depth = work.pop()
        oi = _find_objite(r)
        if oi is None:
            for k in sorted(w):
                oi = _find_objite(w[k])
                if oi is not None:
                    break
        if oi is not None and depth < max_split:
            cond, a, b = oi.data
            for c, val in ((cond, a), (poly._neg_cond(cond) if isinstance(cond, tuple) else (not cond), b)):
                if c is False or (isinstance(c, tuple) and poly._neg_cond(c) in f):
                    continue
                f2 = f if (c is True or c in f) else f + (c,)
                work.append((f2, _replace_obj(r, oi, val), {k: _replace_obj(x, oi, val) for k, x in w.items()}, depth + 1))
            continue
        ites = _top_ites(r)
        for k in sorted(w):
            ites += _top_ites(w[k])
        if not ites or depth >= max_split:
            out.append((f, r, w))
            continue
        atom = ites[0]
        cond, a, b = atom[1], atom[2], atom[3]
        for c, val in ((cond, a), (poly._neg_cond(cond), b)):
            if c is False or (isinstance(c, tuple) and poly._neg_cond(c) in f):
                continue
            mp = {atom: val}
            # the split condition also resolves the conditional inside the path's own facts
            fsub = tuple(_fold(_subst_val(x, mp)) for x in f)
            if any(x is False for x in fsub):
                continue
            fsub = tuple(x for x in fsub if x is not True)
            f2 = fsub if (c is True or c in fsub) else fsub + (c,)
            work.append((f2, _subst_val(r, mp), {k: _subst_val(x, mp) for k, x in w.items()}, depth + 1))
    return out


def path_cases(paths):
    """(facts, value, path) for every path, with conditional values (`a if c else b`) and non-constant truth values (`return c1 and c2`)
    expanded into guarded cases, so that a function written with early returns and one written as a single expression give the same cases"""
    from .absint import c_not

    out = []
    for p in paths:
        for f, r, _w in expand_cases(tuple(p.state.facts), p.ret, {}):
            if isinstance(r, BoolV) and isinstance(r.cond, tuple):
                def _flat(c):
                    if isinstance(c, tuple) and c and c[0] == "and":
                        out_ = []
                        for x in c[1:]:
                            out_ += _flat(x)
                        return out_
                    return [c]

                conj = _flat(r.cond)
                if all(c_not(c) not in f for c in conj):
                    out.append((f + tuple(c for c in conj if c not in f), BoolV(True), p))
                for i, c in enumerate(conj):
                    nc = c_not(c)
                    if c in f:
                        continue
                    # first i conjuncts hold, the i-th fails
                    pre = tuple(x for x in conj[:i] if x not in f)
                    if any(c_not(x) in f for x in conj[:i]):
                        continue
                    out.append((f + pre + ((nc,) if nc not in f else ()), BoolV(False), p))
            else:
                out.append((f, r, p))
    return out


def value_contradictory(facts) -> bool:
    """the comparison facts cannot hold together over the reals (equalities and inequalities are taken as linear constraints over the
    atoms; strict inequalities are relaxed to non-strict ones, which can only make the system more satisfiable: a contradiction found is real)"""
    from .linear import feasible, lin_of

    lins = []
    for c in facts:
        if not (isinstance(c, tuple) and c and c[0] == "cmp" and isinstance(c[2], Frac)):
            continue
        op, d = c[1], c[2]
        cands = [d, -d] if op == "==" else [-d] if op in ("<", "<=") else []
        for g in cands:
            try:
                l = lin_of(g)
            except Exception:
                l = None
            if l is not None:
                lins.append(l)
    if len(lins) < 2:
        return False
    try:
        return not feasible(lins)
    except Exception:
        return False


class CasePath:
    """a guarded case presented like a path (ret / state.facts / node)"""

    def __init__(self, facts, ret, path):
        self.ret, self.node, self.path = ret, path.node, path
        import copy as _copy

        st = _copy.copy(path.state)
        st.facts = list(facts)
        self.state = st


def cased(paths):
    return [CasePath(f, r, p) for f, r, p in path_cases(paths)]


def compare_class(prop: str, res: Result, repo: Repo, ci: ClassInfo) -> None:
    ref = ref_for(repo, ci)
    if ref is None:
        res.errors.append(f"no reference definition Ref_{ci.name} in spec/refs.py")
        return
    ca, cr = analyse_class(repo, ci), analyse_class(repo, ref)
    if ca.error or cr.error:
        res.errors.append(f"{ci.name}: {ca.error or cr.error}")
        return
    fn = ca.fn or ci
    # ---- wiring
    rows_c, rows_r = tree_rows(ca.tree), tree_rows(cr.tree)
    if [r[:3] for r in rows_c] == [r[:3] for r in rows_r]:
        res.ok("R-WIRE", {"class": ci.name, "helpers": [r[3] for r in rows_c]}, nontrivial=f"{ci.name}:tree" if rows_c else None)
    else:
        missing = [r[3] for r in rows_r if r[:3] not in [x[:3] for x in rows_c]]
        extra = [r[3] for r in rows_c if r[:3] not in [x[:3] for x in rows_r]]
        init = repo.find_method(ci, "_initialise") or ci
        res.fail("R-WIRE", finding(prop, "R-WIRE", init, getattr(init, "node", None), f"helper wiring differs from the definition: expected {missing}; found {extra}", construct=f"{ci.name} composition: " + "; ".join(extra)[:150]))
    ids_c, ids_r = helper_ids(ca.tree), helper_ids(cr.tree)
    # ---- formulas
    ref_cases = []
    for pr in cr.paths:
        rw = {ids_r.get(k, k): rename(v, ids_r) for k, v in final_writes(pr).items()}
        for f, r, w in expand_cases(rename(tuple(pr.state.facts), ids_r), rename(pr.ret, ids_r), rw):
            ref_cases.append((rename(f, ids_r), r, w, sorted(ids_r.get(d, d) for d in drives(pr)), pr))
    code_cases = []
    for pc in ca.paths:
        cw = {ids_c.get(k, k): rename(v, ids_c) for k, v in final_writes(pc).items()}
        for f, r, w in expand_cases(rename(tuple(pc.state.facts), ids_c), rename(pc.ret, ids_c), cw):
            code_cases.append((rename(f, ids_c), r, w, sorted(ids_c.get(d, d) for d in drives(pc)), pc))
    def _feasible(f):
        return not value_contradictory(f)

    code_cases = [c for c in code_cases if _feasible(c[0])]
    ref_cases = [c for c in ref_cases if _feasible(c[0])]
    for fc, cret, wc, cdrives, pc in code_cases:
        matches = [rp for rp in ref_cases if compatible(fc, rp[0]) and _feasible(tuple(fc) + tuple(rp[0]))]
        guard = " & ".join(show_cond(c) for c in fc)[:200] or "always"
        if not matches:
            res.fail("R-VN", finding(prop, "R-VN", fn, pc.node or fn.node, f"no case of the definition is compatible with the guard [{guard}]", construct=f"{ci.name} guard: {guard}"[:190]))
            continue
        for rfacts, rret, wr, rdrives, pr in matches:
            rguard = " & ".join(show_cond(c) for c in rfacts)[:160] or "always"
            both = tuple(fc) + tuple(rfacts)
            ok, why = same_val(simplify_under(cret, both), simplify_under(rret, both))
            if not ok:
                res.fail("R-VN", finding(prop, "R-VN", fn, pc.node or fn.node, f"under [{guard}] the reading differs from the definition (case [{rguard}]): {why}", construct=f"{ci.name} value under [{guard}]"[:190]))
                continue
            bad = None
            if set(wc) != set(wr):
                bad = f"series written {sorted(wc)} != {sorted(wr)}"
            else:
                for k in wc:
                    ok2, why2 = same_val(wc[k], wr[k])
                    if not ok2:
                        bad = f"value written to {k}: {why2}"
                        break
            if bad is None and cdrives != rdrives:
                bad = f"helpers driven {drives(pc)} != {drives(pr)}"
            if bad:
                res.fail("R-VN", finding(prop, "R-VN", fn, pc.node or fn.node, f"under [{guard}] the helper state differs from the definition: {bad}", construct=f"{ci.name} state under [{guard}]"[:190]))
            else:
                res.ok("R-VN", {"class": ci.name, "guard": guard, "value": _short(cret), "definition case": rguard}, nontrivial=f"{ci.name}:{guard}")
    # every definition case must be reachable by some code path
    for fr, _, _, _, pr in ref_cases:
        if not any(compatible(fc, fr) for fc, _, _, _, _ in code_cases):
            rguard = " & ".join(show_cond(c) for c in fr)[:200]
            res.fail("R-VN", finding(prop, "R-VN", fn, fn.node, f"the definition's case [{rguard}] has no counterpart in the code", construct=f"{ci.name} missing case [{rguard}]"[:190]))
