"""Checker self-test corpus: single-site edits of the repository, located by exact source fragments.

kind "mutant"  : behaviour-changing; every property in `kills` must report a violation (exit 1)
kind "refactor": behaviour-preserving; every property in `silent` must stay at exit 0
An edit whose `old` fragment is not found exactly once in the current tree is skipped (the tree under test
may legitimately differ); the self-test gates the checker, not the verdict on /repo.
"""

M = "mutant"
R = "refactor"

CORPUS = [
    # ---------------- formulas (C04-C06, C10)
    dict(id="ema-alpha", kind=M, file="hexital/indicators/ema.py", old="alpha = float(self.smoothing / (self.period + 1.0))", new="alpha = float(self.smoothing / self.period)", kills=["C04", "C06"]),
    dict(id="wma-weights-reversed", kind=M, file="hexital/indicators/wma.py", old="self.reading(self.input_value, i) * (self.period - py)", new="self.reading(self.input_value, i) * (py + 1)", kills=["C04"]),
    dict(id="sma-window-edge", kind=M, file="hexital/indicators/sma.py", old="self.reading(self.input_value, index - self.period)", new="self.reading(self.input_value, index - self.period + 1)", kills=["C04"]),
    dict(id="atr-wilder-constant", kind=M, file="hexital/indicators/atr.py", old='self.prev_reading() * (self.period - 1) + self.reading(f"{self.name}_TR")', new='self.prev_reading() * self.period + self.reading(f"{self.name}_TR")', kills=["C05"]),
    dict(id="bbands-lower-sign", kind=M, file="hexital/indicators/bbands.py", old='bbands["BBL"] = sma - (stdev * self._std)', new='bbands["BBL"] = sma + (stdev * self._std)', kills=["C05", "C10"]),
    dict(id="macd-histogram-swapped", kind=M, file="hexital/indicators/macd.py", old="histogram = macd - signal", new="histogram = signal - macd", kills=["C06", "C10"]),
    dict(id="aroon-high-low-swapped", kind=M, file="hexital/indicators/aroon.py", old='movement.highestbar(self.candles, "high", self.period + 1, index)', new='movement.highestbar(self.candles, "low", self.period + 1, index)', kills=["C06"]),
    dict(id="stoch-scale", kind=M, file="hexital/indicators/stoch.py", old="(highest - lowest)) * 100", new="(highest - lowest))", kills=["C06"]),
    dict(id="supertrend-flip-nonstrict", kind=M, file="hexital/indicators/supertrend.py", old='if self.reading("close") > self.prev_reading(f"{self.name}_data.upper"):', new='if self.reading("close") >= self.prev_reading(f"{self.name}_data.upper"):', kills=["C05"]),
    dict(id="donchian-window", kind=M, file="hexital/indicators/donchian.py", old='movement.highest(self.candles, "high", self.period - 1, index)', new='movement.highest(self.candles, "high", self.period, index)', kills=["C05", "C10"]),
    dict(id="vwap-typical-price", kind=M, file="hexital/indicators/vwap.py", old='+ self.reading("close")) / 3', new='+ self.reading("close")) / 2', kills=["C06"]),
    # equivalent edit: at change == 0 both arms give 0 (both normalise to max(-change, 0))
    dict(id="rsi-gain-nonstrict-equivalent", kind=R, file="hexital/indicators/rsi.py", old="change_gain = -1 * change if change < 0 else 0.0", new="change_gain = -1 * change if change <= 0 else 0.0", silent=["C06", "C09", "C10"]),
    dict(id="rsi-gain-sign", kind=M, file="hexital/indicators/rsi.py", old="change_gain = -1 * change if change < 0 else 0.0", new="change_gain = change if change < 0 else 0.0", kills=["C06"]),
    dict(id="tr-operand", kind=M, file="hexital/indicators/tr.py", old="abs(low - close),", new="abs(low - high),", kills=["C05"]),
    dict(id="tsi-scale", kind=M, file="hexital/indicators/tsi.py", old="return 100 * (", new="return (", kills=["C06"]),
    dict(id="counter-step", kind=M, file="hexital/indicators/counter.py", old="count += 1", new="count += 2", kills=["C05", "C10"]),
    dict(id="hma-operands", kind=M, file="hexital/indicators/hma.py", old='raw_hma = (2 * self.reading(f"{self.name}_WMAh")) - self.reading(f"{self.name}_WMA")', new='raw_hma = (2 * self.reading(f"{self.name}_WMA")) - self.reading(f"{self.name}_WMAh")', kills=["C04"]),
    dict(id="aroon-osc-swapped", kind=M, file="hexital/indicators/aroon.py", old='aroon["AROONOSC"] = aroon["AROONU"] - aroon["AROOND"]', new='aroon["AROONOSC"] = aroon["AROOND"] - aroon["AROONU"]', kills=["C10", "C06"]),
    dict(id="kc-upper-sign", kind=M, file="hexital/indicators/kc.py", old='upper = self.reading(f"{self.name}_EMA") + (', new='upper = self.reading(f"{self.name}_EMA") - (', kills=["C10", "C05"]),
    dict(id="supertrend-short-direction", kind=M, file="hexital/indicators/supertrend.py", old="short = upper if direction == -1 else None", new="short = upper if direction == 1 else None", kills=["C10", "C05"]),
    dict(id="donchian-middle", kind=M, file="hexital/indicators/donchian.py", old='donchian["DCM"] = (donchian["DCU"] + donchian["DCL"]) / 2', new='donchian["DCM"] = (donchian["DCU"] + donchian["DCL"]) / 3', kills=["C10", "C05"]),
    dict(id="obv-double-volume", kind=M, file="hexital/indicators/obv.py", old='return self.prev_reading() + self.reading("volume")', new='return self.prev_reading() + 2 * self.reading("volume")', kills=["C10", "C06"]),
    dict(id="aroon-range", kind=M, file="hexital/indicators/aroon.py", old='(self.period - movement.highestbar(self.candles, "high", self.period + 1, index))', new='(self.period + 1 - movement.highestbar(self.candles, "high", self.period + 1, index))', kills=["C10", "C06"]),
    # ---------------- positions / state / work (C01, C02, C07, C09)
    dict(id="adx-lookback-unguarded", kind=M, file="hexital/indicators/adx.py", old='up = self.reading("high") - self.prev_reading("high")', new='up = self.reading("high") - self.reading("high", index - 1)', kills=[]),
    dict(id="sma-guard-dropped", kind=M, file="hexital/indicators/sma.py", old="        if self.prev_exists():\n            return (\n                self.prev_reading()", new="        if index > 0:\n            return (\n                self.prev_reading()", kills=["C02", "C01", "C04"]),
    dict(id="ema-full-history", kind=M, file="hexital/indicators/ema.py", old="return float(self.candles_sum(self.period, self.input_value) / self.period)", new="return float(sum(c.close for c in self.candles) / len(self.candles))", kills=["C07", "C02"]),
    dict(id="sweep-from-zero", kind=M, file="hexital/core/indicator.py", old="for index in range(self._find_calc_index(), len(self.candles)):", new="for index in range(0, len(self.candles)):", kills=["C07", "C01"]),
    dict(id="skip-present-dropped", kind=M, file="hexital/core/indicator.py", old="            if self.candles[index].indicators.get(self.name) is not None:\n                continue\n", new="", kills=["C02", "C07", "C14"]),
    dict(id="sub-recompute-range", kind=M, file="hexital/core/indicator.py", old="                    indicator.calculate()\n", new="                    indicator.calculate_index(0, len(self.candles))\n", kills=["C07"]),
    dict(id="rsi-divide-unguarded", kind=M, file="hexital/indicators/rsi.py", old='            if self.reading(f"{self.name}_data.loss") == 0:\n                return 100.0\n', new="", kills=["C09", "C06"]),
    dict(id="stdev-clamp-dropped", kind=M, file="hexital/indicators/stdev.py", old="return sqrt(max(variance, 0))", new="return sqrt(variance)", kills=["C09", "C05"]),
    dict(id="kc-truthiness", kind=M, file="hexital/indicators/kc.py", old='            self.reading(f"{self.name}_EMA") is None\n            or self.reading(f"{self.name}_ATR") is None', new='            not self.reading(f"{self.name}_EMA")\n            or not self.reading(f"{self.name}_ATR")', kills=["C09", "C05"]),
    dict(id="round-dropped", kind=M, file="hexital/core/indicator.py", old="            reading = round_values(self._calculate_reading(index=index), round_by=self.round_value)\n            self._set_reading(reading, index)\n\n        self._calculate_sub_indicators(prior_calc=False)", new="            reading = self._calculate_reading(index=index)\n            self._set_reading(reading, index)\n\n        self._calculate_sub_indicators(prior_calc=False)", kills=["C10", "C14"]),
    # ---------------- candle manager (C03, C11, C12, C15)
    dict(id="merge-volume-overwrite", kind=M, file="hexital/core/candle.py", old="self.volume += candle.volume", new="self.volume = candle.volume", kills=["C03"]),
    dict(id="merge-high-min", kind=M, file="hexital/core/candle.py", old="self.high = max(self.high, candle.high)", new="self.high = min(self.high, candle.high)", kills=["C03"]),
    dict(id="collapse-left-closed", kind=M, file="hexital/core/candle_manager.py", old="elif start_time < candle.timestamp <= end_time:", new="elif start_time <= candle.timestamp < end_time:", kills=["C03"]),
    dict(id="collapse-label-current-bucket", kind=M, file="hexital/core/candle_manager.py", old="candle.timestamp = next_candle", new="candle.timestamp = end_time", kills=["C03"]),
    dict(id="collapse-window-not-advanced", kind=M, file="hexital/core/candle_manager.py", old="                start_time += timeframe_\n", new="", kills=["C03"]),
    dict(id="collapse-boundary-label", kind=M, file="hexital/core/candle_manager.py", old="candle.timestamp = start_time\n", new="candle.timestamp = end_time\n", kills=["C03"]),
    dict(id="collapse-equivalent-bound", kind=R, file="hexital/core/candle_manager.py", old="elif next_candle < candle.timestamp:", new="elif next_candle <= candle.timestamp:", silent=["C03"]),
    dict(id="round-down-off-by-one", kind=M, file="hexital/utils/timeframe.py", old="return epoch + (timestamp - epoch) // timeframe * timeframe", new="return epoch + ((timestamp - epoch) // timeframe + 1) * timeframe", kills=["C03"]),
    dict(id="timeframe-unit", kind=M, file="hexital/utils/timeframe.py", old="timedelta(minutes=int(timeframe_[1:]))", new="timedelta(seconds=int(timeframe_[1:]))", kills=["C03"]),
    dict(id="ha-high-without-open", kind=M, file="hexital/candlesticks/heikinashi.py", old="candle.high = max(candle.open, candle.high, new_close)", new="candle.high = max(candle.high, new_close)", kills=["C11"]),
    dict(id="ha-close-not-stored", kind=M, file="hexital/candlesticks/heikinashi.py", old="        candle.close = new_close\n", new="", kills=["C11"]),
    dict(id="ha-open-recurrence", kind=M, file="hexital/candlesticks/heikinashi.py", old="(candles[index - 1].open + candles[index - 1].close) / 2", new="(candles[index - 1].open + candles[index - 1].close + candle.open) / 3", kills=["C11"]),
    dict(id="fill-volume", kind=M, file="hexital/core/candle_manager.py", old="volume=0,", new="volume=prev_candle.volume,", kills=["C12"]),
    dict(id="fill-high", kind=M, file="hexital/core/candle_manager.py", old="high=prev_candle.close,", new="high=prev_candle.high,", kills=["C12"]),
    dict(id="trim-nonstrict", kind=M, file="hexital/core/candle_manager.py", old="and self.candles[0].timestamp < latest - self.candles_lifespan", new="and self.candles[0].timestamp <= latest - self.candles_lifespan", kills=["C15"]),
    # ---------------- analysis (C16, C17)
    dict(id="rising-nonstrict", kind=M, file="hexital/analysis/movement.py", old="        if reading >= latest_reading:", new="        if reading > latest_reading:", kills=["C17"]),
    dict(id="above-nonstrict", kind=M, file="hexital/analysis/movement.py", old="        return reading_one > reading_two", new="        return reading_one >= reading_two", kills=["C17"]),
    dict(id="highestbar-tie-rule", kind=M, file="hexital/analysis/movement.py", old="        if high < current:", new="        if high <= current:", kills=["C17"]),
    dict(id="mean-rising-nonstrict", kind=M, file="hexital/analysis/movement.py", old="    return sum(readings) / len(readings) < latest_reading", new="    return sum(readings) / len(readings) <= latest_reading", kills=["C17"]),
    dict(id="clean-window-start", kind=M, file="hexital/analysis/movement.py", old="    start = index - length\n", new="    start = index - length + 1\n", kills=["C17"]),
    dict(id="clean-window-unclamped", kind=M, file="hexital/analysis/movement.py", old="    if start < 0:\n        start = 0\n", new="", kills=["C16", "C02"]),
    dict(id="shadow-upper-formula", kind=M, file="hexital/core/candle.py", old="            return abs(self.high - self.close)", new="            return abs(self.high - self.open)", kills=["C17"]),
    dict(id="positive-nonstrict", kind=M, file="hexital/core/candle.py", old="        return self.open < self.close", new="        return self.open <= self.close", kills=["C17"]),
    dict(id="hammer-clause-dropped", kind=M, file="hexital/analysis/patterns.py", old="            and candle.shadow_upper < utils.candle_shadow_veryshort(candles, indx)\n            and min(candle.close, candle.open)", new="            and min(candle.close, candle.open)", kills=["C17"]),
    dict(id="hammer-clause-inverted", kind=M, file="hexital/analysis/patterns.py", old="            and candle.shadow_lower > utils.candle_shadow_long(candles, indx)", new="            and candle.shadow_lower < utils.candle_shadow_long(candles, indx)", kills=["C17"]),
    dict(id="near-threshold", kind=M, file="hexital/analysis/utils.py", old="    return _high_low_percentage(candles, index=index, length=length, percentage=0.2)", new="    return _high_low_percentage(candles, index=index, length=length, percentage=0.6)", kills=["C17"]),
    dict(id="gapup-definition", kind=M, file="hexital/analysis/utils.py", old="    return min(candle.open, candle.close) > max(candle_two.open, candle_two.close)", new="    return candle.low > candle_two.high", kills=["C17"]),
    dict(id="doji-average-position", kind=M, file="hexital/analysis/patterns.py", old="        return candles[indx].realbody < utils.candle_doji(candles, indx)", new="        return candles[indx].realbody < utils.candle_doji(candles, indx - 1)", kills=["C17"]),
    dict(id="pattern-len-window", kind=M, file="hexital/analysis/patterns.py", old="    return any(_doji(i) for i in range(index + 1 - lookback, index + 1))", new="    return any(_doji(i) for i in range(len(candles) - lookback, len(candles)))", kills=["C16", "C02"]),
    # ---------------- framework (C08, C13, C14, C18, C19, C20)
    dict(id="map-key-renamed", kind=M, file="hexital/indicators/__init__.py", old='    "KC": KC,', new='    "kc": KC,', kills=["C08"]),
    dict(id="deepcopy-dropped-on-append", kind=M, file="hexital/core/candle_manager.py", old="            self.candles.extend(deepcopy(candles_))", new="            self.candles.extend(candles_)", kills=["C08", "C19"]),
    dict(id="purge-substring", kind=M, file="hexital/core/hexital.py", old="            if name is None or indicator_name == name:\n                indicator.purge()", new="            if name is None or name in indicator_name:\n                indicator.purge()", kills=["C13", "C14"]),
    dict(id="datetime-now", kind=M, file="hexital/utils/timeframe.py", old="    return timestamp.replace(microsecond=0)", new="    return timestamp.replace(microsecond=0) if timestamp else datetime.now()", kills=["C18"]),
    dict(id="settings-pops", kind=M, file="hexital/core/indicator.py", old='        output = {"indicator": self._name if self._name else type(self).__name__}\n', new='        output = {"indicator": self._name if self._name else type(self).__name__}\n        self.__dict__.pop("_settings_cache", None)\n', kills=["C19"]),
    dict(id="has-reading-truthiness", kind=M, file="hexital/core/indicator.py", old="        return self.reading(index=self._active_index) is not None", new="        return bool(self.reading(index=self._active_index))", kills=["C20"]),
    dict(id="helper-default-name", kind=M, file="hexital/indicators/kc.py", old='                period=self.period,\n                fullname_override=f"{self.name}_ATR",\n', new="                period=self.period,\n", kills=["C13"]),
    # ---------------- behaviour-preserving rewrites
    dict(id="ema-incremental-form", kind=R, file="hexital/indicators/ema.py", old="            alpha = float(self.smoothing / (self.period + 1.0))\n            return float(\n                alpha * self.reading(self.input_value) + (self.prev_reading() * (1.0 - alpha))\n            )", new="            k = self.smoothing / (1.0 + self.period)\n            previous = self.prev_reading()\n            return previous + k * (self.reading(self.input_value) - previous)", silent=["C04", "C06", "C02", "C09", "C10"]),
    dict(id="sma-seed-explicit-window", kind=R, file="hexital/indicators/sma.py", old="            return self.candles_sum(self.period, self.input_value) / self.period", new="            return sum(self.reading(self.input_value, i) for i in range(index - self.period + 1, index + 1)) / self.period", silent=["C04", "C02", "C07", "C10"]),
    dict(id="wma-ascending-range", kind=R, file="hexital/indicators/wma.py", old="            values = sum(\n                self.reading(self.input_value, i) * (self.period - py)\n                for py, i in enumerate(range(index, index - self.period, -1))\n            )", new="            values = sum(\n                self.reading(self.input_value, index - self.period + 1 + k) * (k + 1)\n                for k in range(self.period)\n            )", silent=["C04", "C02", "C07", "C10"]),
    dict(id="atr-wilder-form", kind=R, file="hexital/indicators/atr.py", old='            return (\n                self.prev_reading() * (self.period - 1) + self.reading(f"{self.name}_TR")\n            ) / self.period', new='            tr_name = f"{self.name}_TR"\n            alpha = 1 / self.period\n            return alpha * self.reading(tr_name) + (1 - alpha) * self.prev_reading()', silent=["C05", "C02", "C09", "C10"]),
    dict(id="kc-offset-hoisted", kind=R, file="hexital/indicators/kc.py", old='        lower = self.reading(f"{self.name}_EMA") - (\n            self.multiplier * self.reading(f"{self.name}_ATR")\n        )', new='        offset = self.reading(f"{self.name}_ATR") * self.multiplier\n        lower = -offset + self.reading(f"{self.name}_EMA")', silent=["C05", "C10", "C09"]),
    dict(id="obv-locals", kind=R, file="hexital/indicators/obv.py", old='            if self.reading("close") == self.prev_reading("close"):\n                return self.prev_reading()\n            elif self.reading("close") > self.prev_reading("close"):\n                return self.prev_reading() + self.reading("volume")\n\n            return self.prev_reading() - self.reading("volume")', new='            prev_close = self.prev_reading("close")\n            total = self.prev_reading()\n            if self.reading("close") == prev_close:\n                return total\n            if self.reading("close") > prev_close:\n                return total + self.reading("volume")\n            return total - self.reading("volume")', silent=["C06", "C10", "C01", "C02"]),
    dict(id="helper-renamed", kind=R, file="hexital/indicators/kc.py", old='_ATR"', new='_AvgTR"', count=4, silent=["C05", "C09", "C10", "C13", "C02"]),
    dict(id="tr-locals-renamed", kind=R, file="hexital/indicators/tr.py", old="            close = self.prev_reading(\"close\")\n            return max(\n                high - low,\n                abs(high - close),\n                abs(low - close),\n            )", new="            prior = self.prev_reading(\"close\")\n            return max(abs(low - prior), abs(high - prior), high - low)", silent=["C05", "C10", "C02"]),
]
