"""run the checker self-test corpus (hexlint/selftest/corpus.py) on scratch copies of /repo, 16-wide.
usage: selftest.py [--props C04,C05] [--ids id1,id2]   exit 0 iff every expectation holds"""
import argparse, json, os, shutil, subprocess, sys, tempfile
from concurrent.futures import ThreadPoolExecutor

VERIF = os.path.dirname(os.path.dirname(os.path.dirname(os.path.abspath(__file__))))
from .corpus import CORPUS

def _repo():
    return os.environ.get("HEXLINT_REPO", "/repo")



def run_one(entry, only_props=None):
    REPO = _repo()
    path = os.path.join(REPO, entry["file"])
    src = open(path).read()
    want_count = entry.get("count", 1)
    if src.count(entry["old"]) != want_count:
        return entry["id"], "skipped", f"fragment occurs {src.count(entry['old'])}x (expected {want_count})", {}
    tmp = tempfile.mkdtemp(prefix="st.")
    try:
        shutil.copytree(os.path.join(REPO, "hexital"), os.path.join(tmp, "hexital"), ignore=shutil.ignore_patterns("__pycache__"))
        open(os.path.join(tmp, entry["file"]), "w").write(src.replace(entry["old"], entry["new"]))
        env = dict(os.environ, HEXLINT_REPO=tmp, HEXLINT_EVIDENCE_DIR=os.path.join(tmp, "ev"))
        props = entry.get("kills", []) if entry["kind"] == "mutant" else entry.get("silent", [])
        if only_props:
            props = [p for p in props if p in only_props]
        res, ok = {}, True
        for p in props:
            c = subprocess.run([os.path.join(VERIF, "check"), p], capture_output=True, text=True, env=env)
            res[p] = c.returncode
            if entry["kind"] == "mutant" and c.returncode != 1:
                ok = False
            if entry["kind"] == "refactor" and c.returncode != 0:
                ok = False
        return entry["id"], "ok" if ok else "FAILED", entry["kind"], res
    finally:
        shutil.rmtree(tmp, ignore_errors=True)


def main():
    ap = argparse.ArgumentParser()
    ap.add_argument("--props", default="")
    ap.add_argument("--ids", default="")
    ap.add_argument("--json", default="")
    a = ap.parse_args()
    only_props = set(a.props.split(",")) if a.props else None
    ids = set(a.ids.split(",")) if a.ids else None
    todo = [e for e in CORPUS if (ids is None or e["id"] in ids) and (only_props is None or set(e.get("kills", []) + e.get("silent", [])) & only_props)]
    with ThreadPoolExecutor(16) as ex:
        out = list(ex.map(lambda e: run_one(e, only_props), todo))
    bad = 0
    for i, status, info, res in out:
        if status != "ok":
            print(f"{status:8s} {i}: {info} {res}")
        bad += status == "FAILED"
    n_ok = sum(1 for o in out if o[1] == "ok")
    print(f"selftest: {n_ok} ok, {bad} failed, {sum(1 for o in out if o[1]=='skipped')} skipped of {len(out)}")
    if a.json:
        json.dump([{"id": i, "status": s, "info": inf, "exits": r} for i, s, inf, r in out], open(a.json, "w"), indent=1)
    return 1 if bad else 0




def _known_misses():
    p = os.path.join(VERIF, "seeded", "KNOWN_MISSES.json")
    try:
        return {e["id"] for e in json.load(open(p)).get("entries", [])}
    except Exception:
        return set()


def run_seed(prop, sid):
    """a stored seeded change (seeded/<sid>/patch.diff, produced by an independent sub-agent for `prop`) must be reported"""
    REPO = _repo()
    tmp = tempfile.mkdtemp(prefix="st.")
    try:
        shutil.copytree(os.path.join(REPO, "hexital"), os.path.join(tmp, "hexital"), ignore=shutil.ignore_patterns("__pycache__"))
        a = subprocess.run(["git", "apply", os.path.join(VERIF, "seeded", sid, "patch.diff")], cwd=tmp, capture_output=True, text=True)
        if a.returncode != 0:
            return "seed:" + sid, "skipped", "patch does not apply to the current tree", {}
        env = dict(os.environ, HEXLINT_REPO=tmp, HEXLINT_EVIDENCE_DIR=os.path.join(tmp, "ev"))
        c = subprocess.run([os.path.join(VERIF, "check"), prop], capture_output=True, text=True, env=env)
        # exit 2 = the analysis cannot follow the changed shape (undecided): recorded, but only a *silent pass* contradicts the expectation
        status = "ok" if c.returncode == 1 else "undecided" if c.returncode == 2 else "FAILED"
        if status == "FAILED" and sid in _known_misses():
            status = "missed"  # a documented miss (seeded/KNOWN_MISSES.json): recorded in the evidence, not a checker regression
        return "seed:" + sid, status, "seeded-change", {prop: c.returncode}
    finally:
        shutil.rmtree(tmp, ignore_errors=True)


def run_refactor(prop, rid):
    """a stored behaviour-preserving refactoring (refactors/<rid>/patch.diff, written by an independent sub-agent around `prop`'s anchors and
    confirmed equivalent by a differential program) must NOT be reported"""
    REPO = _repo()
    tmp = tempfile.mkdtemp(prefix="st.")
    try:
        shutil.copytree(os.path.join(REPO, "hexital"), os.path.join(tmp, "hexital"), ignore=shutil.ignore_patterns("__pycache__"))
        a = subprocess.run(["git", "apply", os.path.join(VERIF, "refactors", rid, "patch.diff")], cwd=tmp, capture_output=True, text=True)
        if a.returncode != 0:
            return "refactor:" + rid, "skipped", "patch does not apply to the current tree", {}
        env = dict(os.environ, HEXLINT_REPO=tmp, HEXLINT_EVIDENCE_DIR=os.path.join(tmp, "ev"))
        c = subprocess.run([os.path.join(VERIF, "check"), prop], capture_output=True, text=True, env=env)
        # exit 2 = undecided (recorded); only a VIOLATION on a behaviour-preserving refactoring contradicts the expectation
        return "refactor:" + rid, "ok" if c.returncode == 0 else "undecided" if c.returncode == 2 else "FAILED", "stored-refactoring", {prop: c.returncode}
    finally:
        shutil.rmtree(tmp, ignore_errors=True)


def refactors_for(prop):
    d = os.path.join(VERIF, "refactors")
    return sorted(x for x in os.listdir(d) if x.startswith(prop + "-r") and os.path.exists(os.path.join(d, x, "patch.diff"))) if os.path.isdir(d) else []


def seeds_for(prop):
    d = os.path.join(VERIF, "seeded")
    return sorted(x for x in os.listdir(d) if x.startswith(prop + "-") and os.path.exists(os.path.join(d, x, "patch.diff"))) if os.path.isdir(d) else []


def run_for_property(prop: str, workers: int = 16):
    """run the corpus entries that name `prop` and the stored seeded changes written for it; returns list of dict(id, kind, status, exit)"""
    todo = [e for e in CORPUS if prop in e.get("kills", []) + e.get("silent", [])]
    with ThreadPoolExecutor(workers) as ex:
        out = list(ex.map(lambda e: run_one(e, {prop}), todo))
        out += list(ex.map(lambda sid: run_seed(prop, sid), seeds_for(prop)))
        out += list(ex.map(lambda rid: run_refactor(prop, rid), refactors_for(prop)))
    return [{"id": i, "status": s, "kind": inf if s != "skipped" else "skipped", "exit": r.get(prop)} for i, s, inf, r in out]
