"""Sign domain over value numbers: {NEG, NONPOS, ZERO, NONNEG, POS, ANY} with branch refinement."""
from __future__ import annotations

from fractions import Fraction
from typing import Callable, Dict, Optional, Tuple

from . import poly
from .absint import c_not
from .poly import Frac, Poly

NEG, NONPOS, ZERO, NONNEG, POS, ANY = "NEG", "NONPOS", "ZERO", "NONNEG", "POS", "ANY"


def s_neg(s):
    return {NEG: POS, NONPOS: NONNEG, ZERO: ZERO, NONNEG: NONPOS, POS: NEG, ANY: ANY}[s]


def s_add(a, b):
    if a == ZERO:
        return b
    if b == ZERO:
        return a
    if a == ANY or b == ANY:
        return ANY
    pos = {POS, NONNEG}
    neg = {NEG, NONPOS}
    if a in pos and b in pos:
        return POS if POS in (a, b) else NONNEG
    if a in neg and b in neg:
        return NEG if NEG in (a, b) else NONPOS
    return ANY


def s_mul(a, b):
    if a == ZERO or b == ZERO:
        return ZERO
    if a == ANY or b == ANY:
        return ANY
    strict = a in (POS, NEG) and b in (POS, NEG)
    positive = (a in (POS, NONNEG)) == (b in (POS, NONNEG))
    if positive:
        return POS if strict else NONNEG
    return NEG if strict else NONPOS


def s_inv(a):
    # sign of 1/a (a assumed non-zero where it matters)
    return {POS: POS, NEG: NEG, NONNEG: NONNEG, NONPOS: NONPOS, ZERO: ANY, ANY: ANY}[a]


def s_join(a, b):
    if a == b:
        return a
    order = {
        frozenset((POS, NONNEG)): NONNEG,
        frozenset((POS, ZERO)): NONNEG,
        frozenset((NONNEG, ZERO)): NONNEG,
        frozenset((NEG, NONPOS)): NONPOS,
        frozenset((NEG, ZERO)): NONPOS,
        frozenset((NONPOS, ZERO)): NONPOS,
    }
    return order.get(frozenset((a, b)), ANY)


def s_pow_even(a):
    if a in (POS, NEG):
        return POS
    if a == ZERO:
        return ZERO
    return NONNEG


def nonzero(s) -> bool:
    return s in (POS, NEG)


def includes_zero(s) -> bool:
    return s not in (POS, NEG)


class SignEnv:
    """atom_sign(atom) -> sign supplies the leaves (readings, config); facts refine.
    lower(atom) -> int|None gives integer lower bounds of config symbols (period >= 2)."""

    def __init__(self, atom_sign: Callable[[tuple], str], facts: tuple = (), lower: Optional[Callable] = None):
        self.atom_sign = atom_sign
        self.facts = tuple(facts)
        self.lower = lower

    def with_fact(self, c) -> "SignEnv":
        return SignEnv(self.atom_sign, self.facts + (c,), self.lower)

    def _cfg_poly_sign(self, q: Poly) -> str:
        """sign of a polynomial in lower-bounded config symbols: substitute c := lb + d (d >= 0) and look at the coefficients"""
        from .poly import Frac as F, subst

        mp = {}
        for a in q.atoms():
            lb = self.lower(a) if self.lower else None
            if lb is None:
                return ANY
            mp[a] = F.const(lb) + F.atom(("d",) + a)
        sh = subst(F(q), mp)
        coefs = list(sh.n.t.values())
        const = sh.n.t.get((), 0)
        if all(c >= 0 for c in coefs):
            return POS if const > 0 else NONNEG
        if all(c <= 0 for c in coefs):
            return NEG if const < 0 else NONPOS
        return ANY

    # ---- facts
    def fact_sign(self, f: Frac) -> Optional[str]:
        best = None
        for c in self.facts:
            if not isinstance(c, tuple):
                continue
            if c[0] == "and":
                sub = SignEnv(self.atom_sign, tuple(c[1:]), self.lower).fact_sign(f)
                best = self._meet(best, sub)
                continue
            if c[0] == "cmp":
                _, op, d = c
                for sgn, g in ((1, f), (-1, -f)):
                    if g == d or g.same(d):
                        s = {"<": NEG, "<=": NONPOS, "==": ZERO}.get(op)
                        if s is not None:
                            best = self._meet(best, s if sgn == 1 else s_neg(s))
        return best

    def fact_nonzero(self, f: Frac) -> bool:
        for c in self.facts:
            if not isinstance(c, tuple):
                continue
            if c[0] == "and" and SignEnv(self.atom_sign, tuple(c[1:]), self.lower).fact_nonzero(f):
                return True
            if c[0] == "cmp" and c[1] in ("!=", "<"):
                d = c[2]
                if f == d or (-f) == d or f.same(d) or (-f).same(d):
                    return True
            if c[0] == "truthy":
                d = c[1]
                if f == d or f.same(d):
                    return True
        return False

    @staticmethod
    def _meet(a, b):
        if a is None:
            return b
        if b is None:
            return a
        if a == b:
            return a
        pair = frozenset((a, b))
        table = {
            frozenset((NONNEG, NONPOS)): ZERO,
            frozenset((NONNEG, POS)): POS,
            frozenset((NONPOS, NEG)): NEG,
            frozenset((NONNEG, ZERO)): ZERO,
            frozenset((NONPOS, ZERO)): ZERO,
            frozenset((ANY, POS)): POS,
            frozenset((ANY, NEG)): NEG,
            frozenset((ANY, NONNEG)): NONNEG,
            frozenset((ANY, NONPOS)): NONPOS,
            frozenset((ANY, ZERO)): ZERO,
        }
        return table.get(pair, a)

    # ---- sign of terms
    def frac(self, f: Frac) -> str:
        fs = self.fact_sign(f)
        sn = self.poly(f.n)
        if f.d.is_const():
            s = sn if f.d.const_value() > 0 else s_neg(sn)
        else:
            s = s_mul(sn, s_inv(self.poly(f.d)))
        s = self._meet(s, fs) if fs else s
        if includes_zero(s) and self.fact_nonzero(f):
            s = {NONNEG: POS, NONPOS: NEG}.get(s, s)
        return s

    def poly(self, p: Poly) -> str:
        if p.is_zero():
            return ZERO
        # special axiom: well-formed candle low <= open,close <= high (same position)
        ax = self._candle_axiom(p)
        if ax is not None:
            return ax
        total = ZERO
        # group by the part that is not a lower-bounded config symbol; the config coefficient polynomial is
        # decided by shift substitution (so `period - 1`, `period^2 - period` are POS for period >= 2)
        groups: Dict[tuple, Dict] = {}
        for m, c in p.t.items():
            cfg_part, rest = [], []
            for a, e in m:
                if self.lower is not None and e > 0 and self.lower(a) is not None:
                    cfg_part.append((a, e))
                else:
                    rest.append((a, e))
            groups.setdefault(tuple(rest), {})[tuple(cfg_part)] = c
        for rest, coefpoly in groups.items():
            if len(coefpoly) == 1 and () in coefpoly:
                s = POS if coefpoly[()] > 0 else NEG
            else:
                s = self._cfg_poly_sign(Poly(coefpoly))
            for a, e in rest:
                sa = self.atom(a)
                if e % 2 == 0:
                    sa = s_pow_even(sa)
                elif e < 0:
                    sa = s_inv(sa)
                s = s_mul(s, sa)
            total = s_add(total, s)
            if total == ANY:
                break
        if total == ANY:
            fs = self.fact_sign(Frac(p))
            if fs:
                return fs
        return total

    def _candle_axiom(self, p: Poly) -> Optional[str]:
        if len(p.t) != 2:
            return None
        items = list(p.t.items())
        (m1, c1), (m2, c2) = items
        if len(m1) != 1 or len(m2) != 1 or m1[0][1] != 1 or m2[0][1] != 1 or c1 != -c2:
            return None
        a1, a2 = m1[0][0], m2[0][0]
        if a1[0] != "rd" or a2[0] != "rd" or a1[2] != a2[2]:
            return None
        rank = {"low": 0, "open": 1, "close": 1, "high": 2}
        if a1[1] not in rank or a2[1] not in rank or rank[a1[1]] == rank[a2[1]]:
            return None
        hi, lo = (a1, a2) if rank[a1[1]] > rank[a2[1]] else (a2, a1)
        chi = c1 if hi is a1 else c2
        return NONNEG if chi > 0 else NONPOS

    def atom(self, a) -> str:
        tag = a[0]
        fs = self.fact_sign(Frac.atom(a))
        s = self._atom(a)
        if fs:
            s = self._meet(s, fs)
        if includes_zero(s) and self.fact_nonzero(Frac.atom(a)):
            s = {NONNEG: POS, NONPOS: NEG}.get(s, s)
        return s

    def _atom(self, a) -> str:
        tag = a[0]
        if tag in ("t", "bv", "n"):
            return NONNEG
        if tag == "fn":
            name = a[1]
            if name in ("abs",):
                inner = self.frac(a[2])
                return POS if nonzero(inner) else NONNEG
            if name == "sqrt":
                inner = self.frac(a[2])
                return POS if inner == POS else NONNEG
            if name == "max":
                ss = [self.frac(x) for x in a[2:]]
                if any(s == POS for s in ss):
                    return POS
                if any(s in (NONNEG, ZERO) for s in ss):
                    return NONNEG if not all(s == ZERO for s in ss) else ZERO
                out = ss[0]
                for s in ss[1:]:
                    out = s_join(out, s)
                return out
            if name == "min":
                ss = [self.frac(x) for x in a[2:]]
                if any(s == NEG for s in ss):
                    return NEG
                if any(s in (NONPOS, ZERO) for s in ss):
                    return NONPOS if not all(s == ZERO for s in ss) else ZERO
                out = ss[0]
                for s in ss[1:]:
                    out = s_join(out, s)
                return out
            if name in ("int", "round", "float"):
                inner = self.frac(a[2])
                return {POS: NONNEG, NEG: NONPOS}.get(inner, inner) if name != "float" else inner
            return self.atom_sign(a)
        if tag == "pow":
            b = self.frac(a[1])
            if b == POS:
                return POS
            return ANY
        if tag == "sum":
            body = self.with_fact(("bound", a[1], a[2])).frac(a[3])
            return body
        if tag == "red":
            if a[1] in ("argmax", "argmin"):
                return NONNEG
            return self.frac(a[4])
        if tag == "ite":
            c = a[1]
            s1 = self.with_fact(c).frac(a[2])
            s2 = self.with_fact(c_not(c)).frac(a[3])
            return s_join(s1, s2)
        return self.atom_sign(a)
