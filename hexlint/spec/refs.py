# Reference definitions of the shipped indicators, transcribed from the property statements C04-C06
# (and the lemmas of DESIGN.md Appendix B).  THIS FILE IS NEVER IMPORTED OR EXECUTED: it is parsed and
# lowered by the same front end as the repository code, and the two normal forms are compared (value
# numbering).  `self.unspecified()` marks a slot the statements leave open (never compared).
from dataclasses import dataclass
from math import sqrt
from typing import Optional

from hexital.analysis import movement
from hexital.core.indicator import Indicator, Managed
from hexital.indicators.atr import ATR
from hexital.indicators.ema import EMA
from hexital.indicators.hla import HighLowAverage
from hexital.indicators.rma import RMA
from hexital.indicators.sma import SMA
from hexital.indicators.stdev import StandardDeviation
from hexital.indicators.tr import TR
from hexital.indicators.wma import WMA


@dataclass(kw_only=True)
class Ref_SMA(Indicator):
    """mean of the last `period` inputs; first reading when `period` inputs exist.
    Step form by the sliding-mean lemma: r[t] = r[t-1] + (x[t] - x[t-p]) / p."""

    period: int = 10
    input_value: str = "close"

    def _calculate_reading(self, index):
        x = self.input_value
        if self.prev_exists():
            return self.prev_reading() + (self.reading(x) - self.reading(x, index - self.period)) / self.period
        if self.reading_period(self.period, x):
            return sum(self.reading(x, index - o) for o in range(self.period)) / self.period
        return None


@dataclass(kw_only=True)
class Ref_EMA(Indicator):
    """r[t] = a*x[t] + (1-a)*r[t-1], a = smoothing/(period+1); seeded by the mean of the first full window"""

    input_value: str = "close"
    period: int = 10
    smoothing: float = 2.0

    def _calculate_reading(self, index):
        x = self.input_value
        a = self.smoothing / (self.period + 1)
        if self.prev_exists():
            return a * self.reading(x) + (1 - a) * self.prev_reading()
        if self.reading_period(self.period, x):
            return sum(self.reading(x, index - o) for o in range(self.period)) / self.period
        return None


@dataclass(kw_only=True)
class Ref_RMA(Indicator):
    """Wilder: r[t] = a*x[t] + (1-a)*r[t-1], a = 1/period; seeded by the decay-weighted mean of the first full window"""

    period: int = 10
    input_value: str = "close"

    def _calculate_reading(self, index):
        x = self.input_value
        a = 1 / self.period
        if self.prev_exists():
            return a * self.reading(x) + (1 - a) * self.prev_reading()
        if self.reading_period(self.period, x):
            return sum((1 - a) ** o * self.reading(x, index - o) for o in range(self.period)) / sum((1 - a) ** o for o in range(self.period))
        return None


@dataclass(kw_only=True)
class Ref_WMA(Indicator):
    """linearly weighted mean: newest input weight p, oldest weight 1, divided by p(p+1)/2"""

    input_value: str = "close"
    period: int = 10

    def _calculate_reading(self, index):
        x = self.input_value
        if self.prev_exists() or self.reading_period(self.period, x):
            return sum((self.period - o) * self.reading(x, index - o) for o in range(self.period)) / (self.period * (self.period + 1) / 2)
        return None


@dataclass(kw_only=True)
class Ref_VWMA(Indicator):
    """sum(close*volume) / sum(volume) over the last `period` candles"""

    period: int = 10

    def _calculate_reading(self, index):
        if self.prev_exists() or self.reading_period(self.period, "close"):
            return sum(self.reading("close", index - o) * self.reading("volume", index - o) for o in range(self.period)) / sum(
                self.reading("volume", index - o) for o in range(self.period)
            )
        return None


@dataclass(kw_only=True)
class Ref_HMA(Indicator):
    """WMA(2*WMA(x, p/2) - WMA(x, p), sqrt(p))"""

    period: int = 10
    input_value: str = "close"

    def _initialise(self):
        self.add_sub_indicator(WMA(input_value=self.input_value, period=self.period, fullname_override=f"{self.name}_WMA"))
        self.add_sub_indicator(WMA(input_value=self.input_value, period=int(self.period / 2), fullname_override=f"{self.name}_WMAh"))
        self.add_managed_indicator("raw_HMA", Managed(fullname_override=f"{self.name}_HMAr"))
        self.managed_indicators["raw_HMA"].add_sub_indicator(
            WMA(input_value=f"{self.name}_HMAr", period=int(sqrt(self.period)), fullname_override=f"{self.name}_HMAs"), False
        )

    def _calculate_reading(self, index):
        if self.reading(f"{self.name}_WMA") is not None:
            self.managed_indicators["raw_HMA"].set_reading(2 * self.reading(f"{self.name}_WMAh") - self.reading(f"{self.name}_WMA"))
            return self.reading(f"{self.name}_HMAs")
        return None


@dataclass(kw_only=True)
class Ref_TR(Indicator):
    """max(high-low, |high - prev close|, |low - prev close|)"""

    def _calculate_reading(self, index):
        if self.reading_period(2, "close"):
            pc = self.reading("close", index - 1)
            return max(self.reading("high") - self.reading("low"), abs(self.reading("high") - pc), abs(self.reading("low") - pc))
        return None


@dataclass(kw_only=True)
class Ref_ATR(Indicator):
    """Wilder-smoothed TR (a = 1/period) seeded by the mean of the first `period` true ranges"""

    period: int = 14

    def _initialise(self):
        self.add_sub_indicator(TR(fullname_override=f"{self.name}_TR"))

    def _calculate_reading(self, index):
        tr = f"{self.name}_TR"
        a = 1 / self.period
        if self.prev_exists():
            return a * self.reading(tr) + (1 - a) * self.prev_reading()
        if self.reading_period(self.period, tr):
            return sum(self.reading(tr, index - o) for o in range(self.period)) / self.period
        return None


@dataclass(kw_only=True)
class Ref_StandardDeviation(Indicator):
    """rolling population standard deviation by the sliding mean/variance update (Appendix B):
    m' = m + (x - r)/p ; V' = V + (x - r)(x - m' + r - m)/p ; r = the input leaving the window (0 during warm-up)"""

    period: int = 30
    input_value: str = "close"

    def _initialise(self):
        self.add_managed_indicator("STDEV_data", Managed(fullname_override=f"{self.name}_data"))

    def _calculate_reading(self, index):
        x = self.input_value
        if self.reading(x) is None:
            return None
        full = False
        r = 0
        m = 0
        v = 0
        if self.reading_period(self.period + 1, x, index):
            r = self.reading(x, index - self.period)
            full = True
        if self.prev_exists(f"{self.name}_data.mean"):
            m = self.prev_reading(f"{self.name}_data.mean")
        if self.prev_exists(f"{self.name}_data.variance"):
            v = self.prev_reading(f"{self.name}_data.variance")
        m2 = m + (self.reading(x) - r) / self.period
        v2 = v + (self.reading(x) - r) * (self.reading(x) - m2 + r - m) / self.period
        self.managed_indicators["STDEV_data"].set_reading({"mean": m2, "variance": v2})
        if full:
            return sqrt(max(v2, 0))
        return None


@dataclass(kw_only=True)
class Ref_BBANDS(Indicator):
    """SMA +/- 2 sigma"""

    period: int = 5
    input_value: str = "close"

    def _initialise(self):
        self.add_sub_indicator(StandardDeviation(input_value=self.input_value, period=self.period, fullname_override=f"{self.name}_STDEV"))
        self.add_sub_indicator(SMA(input_value=self.input_value, period=self.period, fullname_override=f"{self.name}_SMA"))

    def _calculate_reading(self, index):
        if self.reading(f"{self.name}_SMA") is not None and self.reading(f"{self.name}_STDEV") is not None:
            mid = self.reading(f"{self.name}_SMA")
            sd = self.reading(f"{self.name}_STDEV")
            return {"BBL": mid - 2 * sd, "BBM": mid, "BBU": mid + 2 * sd}
        return {"BBL": None, "BBM": None, "BBU": None}


@dataclass(kw_only=True)
class Ref_KC(Indicator):
    """EMA +/- multiplier * ATR"""

    period: int = 20
    multiplier: float = 2.0
    input_value: str = "close"

    def _initialise(self):
        self.add_sub_indicator(ATR(period=self.period, fullname_override=f"{self.name}_ATR"))
        self.add_sub_indicator(EMA(input_value=self.input_value, period=self.period, fullname_override=f"{self.name}_EMA"))

    def _calculate_reading(self, index):
        if self.reading(f"{self.name}_EMA") is None or self.reading(f"{self.name}_ATR") is None:
            return {"lower": None, "band": None, "upper": None}
        mid = self.reading(f"{self.name}_EMA")
        w = self.multiplier * self.reading(f"{self.name}_ATR")
        return {"lower": mid - w, "band": mid, "upper": mid + w}


@dataclass(kw_only=True)
class Ref_Donchian(Indicator):
    """window extremes of high and low over `period` candles including the current one; middle = mean of the bounds"""

    period: int = 20

    def _calculate_reading(self, index):
        if self.prev_reading(f"{self.name}.DCU") is not None or self.reading_period(self.period, "high", index):
            up = movement.highest(self.candles, "high", self.period - 1, index)
            lo = movement.lowest(self.candles, "low", self.period - 1, index)
            return {"DCL": lo, "DCM": (up + lo) / 2, "DCU": up}
        return {"DCL": None, "DCM": None, "DCU": None}


@dataclass(kw_only=True)
class Ref_HighestLowest(Indicator):
    """window extremes of high and low (window length: not fixed by the statement; the shipped window is kept)"""

    period: int = 100

    def _calculate_reading(self, index):
        return {"low": movement.lowest(self.candles, "low", self.period, index), "high": movement.highest(self.candles, "high", self.period, index)}


@dataclass(kw_only=True)
class Ref_HighLowAverage(Indicator):
    def _calculate_reading(self, index):
        return (self.reading("high") + self.reading("low")) / 2


@dataclass(kw_only=True)
class Ref_Supertrend(Indicator):
    """HL2 +/- multiplier*ATR bands; direction flips when the close breaks the previous band, otherwise the
    band in the trend direction only ratchets (lower never falls while long, upper never rises while short)"""

    period: int = 7
    multiplier: float = 3.0
    input_value: str = "close"

    def _initialise(self):
        self.add_sub_indicator(ATR(period=self.period, fullname_override=f"{self.name}_atr"))
        self.add_sub_indicator(HighLowAverage(fullname_override=f"{self.name}_HL"))
        self.add_managed_indicator("ST_data", Managed(fullname_override=f"{self.name}_data"))

    def _calculate_reading(self, index):
        if self.reading(f"{self.name}_atr") is None:
            return {"trend": None, "direction": 1, "long": None, "short": None}
        w = self.multiplier * self.reading(f"{self.name}_atr")
        upper = self.reading(f"{self.name}_HL") + w
        lower = self.reading(f"{self.name}_HL") - w
        direction = 1
        if self.prev_exists(f"{self.name}_data.lower"):
            if self.reading("close") > self.prev_reading(f"{self.name}_data.upper"):
                direction = 1
            elif self.reading("close") < self.prev_reading(f"{self.name}_data.lower"):
                direction = -1
            else:
                direction = self.prev_reading(f"{self.name}.direction")
                if direction == 1 and lower < self.prev_reading(f"{self.name}_data.lower"):
                    lower = self.prev_reading(f"{self.name}_data.lower")
                if direction == -1 and upper > self.prev_reading(f"{self.name}_data.upper"):
                    upper = self.prev_reading(f"{self.name}_data.upper")
        self.managed_indicators["ST_data"].set_reading({"upper": upper, "lower": lower})
        return {
            "trend": lower if direction == 1 else upper,
            "direction": direction,
            "long": lower if direction == 1 else None,
            "short": upper if direction == -1 else None,
        }


@dataclass(kw_only=True)
class Ref_StandardDeviationThreshold(Indicator):
    """true exactly when the input moved by more than multiplier*sigma since the previous candle"""

    period: int = 10
    multiplier: float = 2.0
    input_value: str = "close"

    def _initialise(self):
        self.add_sub_indicator(StandardDeviation(input_value=self.input_value, period=self.period, fullname_override=f"{self.name}_stdev"))

    def _calculate_reading(self, index):
        if self.reading(f"{self.name}_stdev") is None:
            return False
        return abs(self.reading(self.input_value) - self.prev_reading(self.input_value)) > self.multiplier * self.reading(f"{self.name}_stdev")


@dataclass(kw_only=True)
class Ref_Counter(Indicator):
    """length of the current run of candles on which the input equals the counted value; unchanged when the input is missing"""

    input_value: str
    count_value: bool | int = True

    def _calculate_reading(self, index):
        x = self.reading(self.input_value)
        n = self.prev_reading()
        if not n:
            n = 0
        if x is None:
            return n
        if self.count_value == x:
            return n + 1
        return 0


@dataclass(kw_only=True)
class Ref_RSI(Indicator):
    """Wilder-smoothed average gain / loss (a = 1/period), seeded by the mean gain/loss of the first `period` changes;
    RSI = 100 - 100/(1 + gain/loss), 100 when there are no losses"""

    period: int = 14
    input_value: str = "close"

    def _initialise(self):
        self.add_managed_indicator("RSI_data", Managed(fullname_override=f"{self.name}_data"))

    def _calculate_reading(self, index):
        x = self.input_value
        a = 1 / self.period
        if self.prev_exists():
            d = self.reading(x) - self.prev_reading(x)
            up = d if d > 0 else 0.0
            down = -d if d < 0 else 0.0
            self.managed_indicators["RSI_data"].set_reading(
                {
                    "gain": a * up + (1 - a) * self.prev_reading(f"{self.name}_data.gain"),
                    "loss": a * down + (1 - a) * self.prev_reading(f"{self.name}_data.loss"),
                }
            )
        elif self.reading_period(self.period + 1, x):
            ch = [self.reading(x, index - o) - self.reading(x, index - o - 1) for o in range(self.period)]
            self.managed_indicators["RSI_data"].set_reading(
                {"gain": sum(c for c in ch if c > 0) / self.period, "loss": sum(abs(c) for c in ch if c < 0) / self.period}
            )
        if self.reading(f"{self.name}_data"):
            if self.reading(f"{self.name}_data.loss") == 0:
                return 100.0
            return 100 - 100 / (1 + self.reading(f"{self.name}_data.gain") / self.reading(f"{self.name}_data.loss"))
        self.managed_indicators["RSI_data"].set_reading(None)
        return None


@dataclass(kw_only=True)
class Ref_MACD(Indicator):
    """fast EMA - slow EMA; signal = EMA of that line; histogram = MACD - signal"""

    fast_period: int = 12
    slow_period: int = 26
    signal_period: int = 9
    input_value: str = "close"

    def _initialise(self):
        self.add_sub_indicator(EMA(input_value=self.input_value, period=self.fast_period, fullname_override=f"{self.name}_EMA_fast"))
        self.add_sub_indicator(EMA(input_value=self.input_value, period=self.slow_period, fullname_override=f"{self.name}_EMA_slow"))
        self.add_managed_indicator("signal", EMA(input_value=f"{self.name}.MACD", period=self.signal_period, fullname_override=f"{self.name}_signal_line"))

    def _calculate_reading(self, index):
        if self.reading(f"{self.name}_EMA_slow") is None:
            return {"MACD": None, "signal": None, "histogram": None}
        line = self.reading(f"{self.name}_EMA_fast") - self.reading(f"{self.name}_EMA_slow")
        self.candles[index].indicators[self.name] = {"MACD": line}
        self.managed_indicators["signal"].calculate_index(index)
        sig = self.managed_indicators["signal"].reading()
        if sig is not None:
            return {"MACD": line, "signal": sig, "histogram": line - sig}
        return {"MACD": line, "signal": sig, "histogram": None}


@dataclass(kw_only=True)
class Ref_ROC(Indicator):
    """(x[t] - x[t-p]) / x[t-p] * 100"""

    period: int = 10
    input_value: str = "close"

    def _calculate_reading(self, index):
        x = self.input_value
        if self.prev_exists() or self.reading_period(self.period + 1, x):
            return (self.reading(x) - self.reading(x, index - self.period)) / self.reading(x, index - self.period) * 100
        return None


@dataclass(kw_only=True)
class Ref_STOCH(Indicator):
    """%stoch = (x - lowest low)/(highest high - lowest low)*100 over `period`; %K = SMA(stoch, smoothing_k); %D = SMA(K, slow_period)"""

    period: int = 14
    slow_period: int = 3
    smoothing_k: int = 3
    input_value: str = "close"

    def _initialise(self):
        self.add_managed_indicator("STOCH_data", Managed(fullname_override=f"{self.name}_data"))
        self.managed_indicators["STOCH_data"].add_sub_indicator(
            SMA(input_value=f"{self.name}_data.stoch", period=self.smoothing_k, fullname_override=f"{self.name}_k"), False
        )
        self.add_managed_indicator("STOCH_d", SMA(input_value=f"{self.name}_data.k", period=self.slow_period, fullname_override=f"{self.name}_d"))

    def _calculate_reading(self, index):
        if not self.reading_period(self.period, self.input_value):
            return {"stoch": None, "k": None, "d": None}
        ll = min(self.reading("low", index - o) for o in range(self.period))
        hh = max(self.reading("high", index - o) for o in range(self.period))
        stoch = (self.reading(self.input_value) - ll) / (hh - ll) * 100
        self.managed_indicators["STOCH_data"].set_reading({"stoch": stoch})
        k = self.reading(f"{self.name}_k")
        self.managed_indicators["STOCH_data"].set_reading({"stoch": stoch, "k": k})
        self.managed_indicators["STOCH_d"].calculate_index(index)
        return {"stoch": stoch, "k": k, "d": self.reading(f"{self.name}_d")}


@dataclass(kw_only=True)
class Ref_TSI(Indicator):
    """100 * EMA(EMA(dx, period), smooth) / EMA(EMA(|dx|, period), smooth)   (value when the denominator is 0: not fixed by the statement)"""

    period: int = 25
    smooth_period: Optional[int] = None
    input_value: str = "close"

    def _initialise(self):
        self.add_managed_indicator("TSI_data", Managed(fullname_override=f"{self.name}_data"))
        self.managed_indicators["TSI_data"].add_sub_indicator(EMA(input_value=f"{self.name}_data.price", period=self.period, fullname_override=f"{self.name}_first"), False)
        self.managed_indicators["TSI_data"].sub_indicators[f"{self.name}_first"].add_sub_indicator(
            EMA(input_value=f"{self.name}_first", period=self.smooth_period, fullname_override=f"{self.name}_second"), False
        )
        self.managed_indicators["TSI_data"].add_sub_indicator(EMA(input_value=f"{self.name}_data.abs_price", period=self.period, fullname_override=f"{self.name}_abs_first"), False)
        self.managed_indicators["TSI_data"].sub_indicators[f"{self.name}_abs_first"].add_sub_indicator(
            EMA(input_value=f"{self.name}_abs_first", period=self.smooth_period, fullname_override=f"{self.name}_abs_second"), False
        )

    def _calculate_reading(self, index):
        x = self.input_value
        if not self.reading_period(2, x):
            return None
        dx = self.reading(x) - self.prev_reading(x)
        self.managed_indicators["TSI_data"].set_reading({"price": dx, "abs_price": abs(dx)})
        if self.reading(f"{self.name}_abs_second"):
            return 100 * self.reading(f"{self.name}_second") / self.reading(f"{self.name}_abs_second")
        return self.unspecified()


@dataclass(kw_only=True)
class Ref_AROON(Indicator):
    """100*(period - bars since the most recent extreme)/period over the last period+1 candles; oscillator = up - down"""

    period: int = 14

    def _calculate_reading(self, index):
        if self.reading_period(self.period + 1, "high"):
            up = (self.period - movement.highestbar(self.candles, "high", self.period + 1, index)) / self.period * 100
            down = (self.period - movement.lowestbar(self.candles, "low", self.period + 1, index)) / self.period * 100
            return {"AROONU": up, "AROOND": down, "AROONOSC": up - down}
        return {"AROONU": None, "AROOND": None, "AROONOSC": None}


@dataclass(kw_only=True)
class Ref_ADX(Indicator):
    """+DM = up move if it exceeds the down move and is positive (else 0), -DM symmetric; DI = 100 * Wilder-smoothed DM / ATR;
    DX = 100*|DI+ - DI-|/(DI+ + DI-); ADX = Wilder-smoothed DX.  Zero ATR / zero DI sum give 0 (convention)."""

    period: int = 14
    period_signal: Optional[int] = None

    def _initialise(self):
        self.add_sub_indicator(ATR(period=self.period, fullname_override=f"{self.name}_atr"))
        data = Managed(fullname_override=f"{self.name}_data")
        self.add_managed_indicator("ADX_data", data)
        data.add_sub_indicator(RMA(fullname_override=f"{self.name}_pos", period=self.period, input_value=f"{self.name}_data.pos"), False)
        data.add_sub_indicator(RMA(fullname_override=f"{self.name}_neg", period=self.period, input_value=f"{self.name}_data.neg"), False)
        self.add_managed_indicator("dx", RMA(fullname_override=f"{self.name}_dx", period=self.period_signal, input_value=f"{self.name}_data.dx"))

    def _calculate_reading(self, index):
        if not self.prev_exists("high"):
            return {"ADX": None, "DM_Plus": None, "DM_Neg": None}
        up = self.reading("high") - self.prev_reading("high")
        down = self.prev_reading("low") - self.reading("low")
        pos = up if up > down and up > 0 else 0
        neg = down if down > up and down > 0 else 0
        self.managed_indicators["ADX_data"].set_reading({"pos": pos, "neg": neg})
        if self.reading(f"{self.name}_atr") is None or self.reading(f"{self.name}_pos") is None:
            return {"ADX": None, "DM_Plus": None, "DM_Neg": None}
        atr = self.reading(f"{self.name}_atr")
        k = 100 / atr if atr != 0 else 0.0
        dip = k * self.reading(f"{self.name}_pos")
        dim = k * self.reading(f"{self.name}_neg")
        dx = 100 * abs(dip - dim) / (dip + dim) if dip + dim != 0 else 0.0
        self.managed_indicators["ADX_data"].set_reading({"pos": pos, "neg": neg, "dx": dx})
        self.managed_indicators["dx"].calculate_index(index)
        return {"ADX": self.reading(f"{self.name}_dx"), "DM_Plus": dip, "DM_Neg": dim}


@dataclass(kw_only=True)
class Ref_OBV(Indicator):
    """volume added when the close rises, subtracted when it falls, unchanged when the close is unchanged; starts at the first volume"""

    def _calculate_reading(self, index):
        if not self.prev_exists():
            return self.reading("volume")
        if self.reading("close") == self.prev_reading("close"):
            return self.prev_reading()
        if self.reading("close") > self.prev_reading("close"):
            return self.prev_reading() + self.reading("volume")
        return self.prev_reading() - self.reading("volume")


@dataclass(kw_only=True)
class Ref_VWAP(Indicator):
    """cumulative sum(typical price * volume) / cumulative sum(volume), typical price = (h+l+c)/3 (value while no volume has traded: not fixed by the statement)"""

    period: int = 10

    def _initialise(self):
        self.add_managed_indicator("VWAP_data", Managed(fullname_override=f"{self.name}_data"))

    def _calculate_reading(self, index):
        tp = (self.reading("high") + self.reading("low") + self.reading("close")) / 3
        pv = 0
        vol = 0
        if self.prev_exists(f"{self.name}_data.pv"):
            pv = self.prev_reading(f"{self.name}_data.pv")
            vol = self.prev_reading(f"{self.name}_data.vol")
        pv = pv + tp * self.reading("volume")
        vol = vol + self.reading("volume")
        self.managed_indicators["VWAP_data"].set_reading({"pv": pv, "vol": vol})
        if vol == 0:
            return self.unspecified()
        return pv / vol
