"""Small syntax-directed helpers for ordering / typestate / ownership rules."""
from __future__ import annotations

import ast
from typing import Callable, Dict, Iterable, List, Optional, Tuple

from .model import AnalysisError, ClassInfo, FuncInfo, Repo


def calls_in(node: ast.AST) -> List[ast.Call]:
    return [n for n in ast.walk(node) if isinstance(n, ast.Call)]


def call_name(c: ast.Call) -> str:
    f = c.func
    if isinstance(f, ast.Attribute):
        return f.attr
    if isinstance(f, ast.Name):
        return f.id
    return ""


def call_target(c: ast.Call) -> str:
    return ast.unparse(c.func)


def stmt_paths(body: List[ast.stmt]) -> List[List[ast.stmt]]:
    """all acyclic statement sequences through a body (if/else forks, loops taken 0 or 1 time,
    return/raise/continue/break end a path).  Each path is the list of *simple* statements executed in order;
    compound statement headers appear as the node itself (so tests can be inspected)."""
    out: List[List[ast.stmt]] = []

    def walk(stmts, acc, k):
        if not stmts:
            k(acc)
            return
        s, rest = stmts[0], stmts[1:]
        if isinstance(s, (ast.Return, ast.Raise)):
            out.append(acc + [s])
            return
        if isinstance(s, (ast.Continue, ast.Break)):
            out.append(acc + [s])
            return
        if isinstance(s, ast.If):
            walk(s.body, acc + [("if", s, True)], lambda a: walk(rest, a, k))
            walk(s.orelse, acc + [("if", s, False)], lambda a: walk(rest, a, k))
            return
        if isinstance(s, (ast.For, ast.While)):
            walk(rest, acc + [("loop-skip", s)], k)
            walk(s.body, acc + [("loop-enter", s)], lambda a: walk(rest, a + [("loop-exit", s)], k))
            return
        if isinstance(s, (ast.With,)):
            walk(s.body, acc + [s], lambda a: walk(rest, a, k))
            return
        if isinstance(s, ast.Try):
            walk(s.body + s.finalbody, acc, lambda a: walk(rest, a, k))
            return
        walk(rest, acc + [s], k)

    walk(list(body), [], lambda a: out.append(a))
    return out


def path_calls(path) -> List[ast.Call]:
    """calls in execution order along a statement path (tests of taken ifs included)"""
    out = []
    for item in path:
        if isinstance(item, tuple):
            if item[0] == "if":
                out.extend(_ordered_calls(item[1].test))
            elif item[0] == "loop-enter" and isinstance(item[1], ast.For):
                out.extend(_ordered_calls(item[1].iter))
            elif item[0] == "loop-enter" and isinstance(item[1], ast.While):
                out.extend(_ordered_calls(item[1].test))
        else:
            out.extend(_ordered_calls(item))
    return out


def _ordered_calls(node) -> List[ast.Call]:
    # evaluation order approximation: post-order (arguments before the call itself)
    out = []

    def rec(n):
        for c in ast.iter_child_nodes(n):
            rec(c)
        if isinstance(n, ast.Call):
            out.append(n)

    rec(node)
    return out


def normal_exit(path) -> bool:
    """path ends by falling off the end or `return` (not raise)"""
    if not path:
        return True
    last = path[-1]
    return not isinstance(last, ast.Raise)


def order_on_every_path(fn: ast.FunctionDef, names: List[str], target_filter: Optional[Callable[[ast.Call], bool]] = None):
    """for every normal path that contains at least one of the named calls: they occur in the given relative order and all of them occur.
    returns list of (ok, path_names)"""
    res = []
    for p in stmt_paths(fn.body):
        if not normal_exit(p):
            continue
        seq = [call_name(c) for c in path_calls(p) if call_name(c) in names and (target_filter is None or target_filter(c))]
        res.append((seq, p))
    return res


def is_subsequence(want: List[str], seq: List[str]) -> bool:
    it = iter(seq)
    return all(any(x == w for x in it) for w in want)


def attr_stores(node: ast.AST) -> List[Tuple[ast.AST, ast.Attribute]]:
    """(statement, target) for every attribute store / augmented store / delete"""
    out = []
    for n in ast.walk(node):
        targets = []
        if isinstance(n, ast.Assign):
            targets = n.targets
        elif isinstance(n, (ast.AugAssign, ast.AnnAssign)):
            targets = [n.target]
        elif isinstance(n, ast.Delete):
            targets = n.targets
        for t in targets:
            for sub in ast.walk(t):
                if isinstance(sub, ast.Attribute) and isinstance(sub.ctx, (ast.Store, ast.Del)):
                    out.append((n, sub))
    return out


def subscript_stores(node: ast.AST) -> List[Tuple[ast.AST, ast.Subscript]]:
    out = []
    for n in ast.walk(node):
        targets = []
        if isinstance(n, ast.Assign):
            targets = n.targets
        elif isinstance(n, (ast.AugAssign, ast.AnnAssign)):
            targets = [n.target]
        elif isinstance(n, ast.Delete):
            targets = n.targets
        for t in targets:
            for sub in ast.walk(t):
                if isinstance(sub, ast.Subscript) and isinstance(sub.ctx, (ast.Store, ast.Del)):
                    out.append((n, sub))
    return out


def reaching_alias(fn: ast.FunctionDef, name: str) -> List[ast.AST]:
    """all expressions assigned to local `name` in fn (flow-insensitive)"""
    out = []
    for n in ast.walk(fn):
        if isinstance(n, ast.Assign):
            for t in n.targets:
                if isinstance(t, ast.Name) and t.id == name:
                    out.append(n.value)
        elif isinstance(n, ast.AnnAssign) and isinstance(n.target, ast.Name) and n.target.id == name and n.value is not None:
            out.append(n.value)
        elif isinstance(n, (ast.For, ast.comprehension)):
            tgt = n.target
            for sub in ast.walk(tgt):
                if isinstance(sub, ast.Name) and sub.id == name:
                    out.append(("iter", n.iter))
    return out


# ---------------------------------------------------------------------------
# call graph over the package (name-resolved, conservative)


BUILTIN_LIKE = {
    "append", "extend", "pop", "get", "update", "items", "values", "keys", "insert", "remove", "index", "copy", "sort", "replace",
    "split", "upper", "lower", "format", "total_seconds", "timestamp", "isoformat", "startswith", "endswith", "join", "strip", "count",
    "setdefault", "clear", "add", "discard", "fromisoformat", "fromtimestamp", "__setattr__",
}


class CallGraph:
    def __init__(self, repo: Repo):
        self.repo = repo
        self.funcs: Dict[str, FuncInfo] = {}
        self.edges: Dict[str, set] = {}
        self.unresolved: Dict[str, List[str]] = {}
        for fi in repo.all_functions():
            self.funcs[self.key(fi)] = fi
        self.by_method: Dict[str, List[FuncInfo]] = {}
        for fi in self.funcs.values():
            if fi.cls is not None:
                self.by_method.setdefault(fi.name, []).append(fi)
        for k, fi in self.funcs.items():
            self.edges[k] = set()
            self.unresolved[k] = []
            for c in calls_in(fi.node):
                for tgt in self.resolve_call(fi, c):
                    self.edges[k].add(self.key(tgt))

    @staticmethod
    def key(fi: FuncInfo) -> str:
        return f"{fi.module.name}.{fi.qualname}" + (":setter" if fi.kind == "setter" else "")

    def resolve_call(self, fi: FuncInfo, c: ast.Call) -> List[FuncInfo]:
        f = c.func
        repo = self.repo
        if isinstance(f, ast.Name):
            r = repo.resolve(fi.module, f.id)
            if isinstance(r, FuncInfo):
                return [r]
            if isinstance(r, ClassInfo):
                out = []
                for m in ("__init__", "__post_init__"):
                    mm = repo.find_method(r, m)
                    if mm:
                        out.append(mm)
                return out
            return []
        if isinstance(f, ast.Attribute):
            base = f.value
            if isinstance(base, ast.Name) and base.id in ("self", "cls") and fi.cls is not None:
                # dynamic dispatch: the method in this class's MRO plus overrides in subclasses
                out = []
                m = repo.find_method(fi.cls, f.attr)
                if m:
                    out.append(m)
                for other in self.by_method.get(f.attr, []):
                    if other.cls is not fi.cls and repo.is_subclass(other.cls, fi.cls):
                        out.append(other)
                return out
            if isinstance(base, ast.Call) and isinstance(base.func, ast.Name) and base.func.id == "super" and fi.cls is not None:
                for c2 in repo.mro(fi.cls)[1:]:
                    if f.attr in c2.methods:
                        return [c2.methods[f.attr]]
                return []
            dotted = ast.unparse(f)
            r = repo.resolve(fi.module, dotted)
            if isinstance(r, FuncInfo):
                return [r]
            recv = ast.unparse(base)
            if recv in ("self._candles", "self.candle_manager", "candle_manager", "manager"):
                cm = repo.modules.get("hexital.core.candle_manager")
                if cm and "CandleManager" in cm.classes:
                    m = repo.find_method(cm.classes["CandleManager"], f.attr)
                    return [m] if m else []
            if f.attr in BUILTIN_LIKE:
                # container / str / datetime method on an untyped receiver: not a repository method
                return []
            # method on some object: every method of that name in the package (conservative)
            cands = self.by_method.get(f.attr, [])
            if cands:
                return cands
            self.unresolved[self.key(fi)].append(dotted)
        return []

    def reachable(self, roots: Iterable[str], stop=None) -> set:
        seen, todo = set(), list(roots)
        while todo:
            k = todo.pop()
            if k in seen or k not in self.edges:
                continue
            seen.add(k)
            if stop is not None and stop(self.funcs[k]):
                continue
            todo.extend(self.edges[k])
        return seen


def canon_test(node: ast.AST) -> str:
    """orientation- and strictness-independent text of a simple size test: `2 > len(x)`, `len(x) <= 1`, `len(x) < 2` -> `len(x) < 2`;
    `not len(x)`, `len(x) == 0` -> `len(x) < 1`; anything else: normalised source text"""
    FLIP = {ast.Lt: ast.Gt, ast.Gt: ast.Lt, ast.LtE: ast.GtE, ast.GtE: ast.LtE, ast.Eq: ast.Eq, ast.NotEq: ast.NotEq}

    def is_len(n):
        return isinstance(n, ast.Call) and isinstance(n.func, ast.Name) and n.func.id == "len"

    if isinstance(node, ast.UnaryOp) and isinstance(node.op, ast.Not) and is_len(node.operand):
        return f"{ast.unparse(node.operand)} < 1"
    if isinstance(node, ast.Compare) and len(node.ops) == 1:
        l, op, r = node.left, type(node.ops[0]), node.comparators[0]
        if not is_len(l) and is_len(r) and op in FLIP:
            l, r, op = r, l, FLIP[op]
        if is_len(l) and isinstance(r, ast.Constant) and isinstance(r.value, int) and not isinstance(r.value, bool):
            k = r.value
            if op is ast.Lt:
                return f"{ast.unparse(l)} < {k}"
            if op is ast.LtE:
                return f"{ast.unparse(l)} < {k + 1}"
            if op is ast.GtE:
                return f"not {ast.unparse(l)} < {k}"
            if op is ast.Gt:
                return f"not {ast.unparse(l)} < {k + 1}"
            if op is ast.Eq and k == 0:
                return f"{ast.unparse(l)} < 1"
    return " ".join(ast.unparse(node).split())


def canon_cond(test: ast.AST):
    """(positive test, flipped?) : strips `not`, turns `x is None` into `x is not None` (flipped), `a != b` stays"""
    flipped = False
    while isinstance(test, ast.UnaryOp) and isinstance(test.op, ast.Not):
        test, flipped = test.operand, not flipped
    if isinstance(test, ast.Compare) and len(test.ops) == 1 and isinstance(test.ops[0], ast.Is) and isinstance(test.comparators[0], ast.Constant) and test.comparators[0].value is None:
        test = ast.Compare(left=test.left, ops=[ast.IsNot()], comparators=test.comparators)
        flipped = not flipped
    return test, flipped


def canon_ifexp(e: ast.IfExp):
    """(test, value-if-test, value-otherwise) as text, independent of how the condition is negated / which arm comes first"""
    t, flipped = canon_cond(e.test)
    a, b = (e.orelse, e.body) if flipped else (e.body, e.orelse)
    return ast.unparse(t), ast.unparse(a), ast.unparse(b)


def canon_if(node: ast.If):
    """(positive test node, statements when it holds, statements otherwise)"""
    t, flipped = canon_cond(node.test)
    return (t, node.orelse, node.body) if flipped else (t, node.body, node.orelse)


def arg_of(call: ast.Call, fi, k: int):
    """the expression bound to the k-th (non-self) parameter of `fi` at this call: by keyword, by position, or the default; None if absent"""
    params = [a for a in fi.node.args.args if a.arg not in ("self", "cls")]
    if k >= len(params):
        return None
    name = params[k].arg
    for kw in call.keywords:
        if kw.arg == name:
            return kw.value
    if k < len(call.args):
        return call.args[k]
    defaults = fi.node.args.defaults
    all_params = fi.node.args.args
    idx = all_params.index(params[k])
    off = idx - (len(all_params) - len(defaults))
    return defaults[off] if off >= 0 else None
