"""Partial evaluation of the timeframe-name parser for one prefix at a time.

`timeframe_to_timedelta("<P><digits>")` must be `timedelta(<unit of P>=int(digits))`.  How the function gets there (a `startswith`
ladder, a prefix->unit table, `timedelta(**{unit: n})`, `n * timedelta(unit=1)`, helpers, caches) is free.  The name is modelled as the
abstract string  P + digits(n)  with the prefix P concrete and n a symbolic non-negative integer; every test the parser makes on it
(first character, prefix test, membership in a constant table) then has a concrete answer, so the evaluation follows exactly one path
per prefix and ends in `timedelta(unit = c*n)`, a raise, or a construct the evaluator does not model (Undecided -> the rule reports
'cannot decide', never a violation)."""
from __future__ import annotations

import ast
from fractions import Fraction
from typing import Dict, Optional

from .model import ClassInfo, FuncInfo, ModuleInfo, Repo


class Undecided(Exception):
    pass


class PStr:  # prefix + decimal digits of n
    def __init__(self, prefix: str):
        self.prefix = prefix

    def __repr__(self):
        return f"'{self.prefix}<n>'"


class Digits:  # the decimal digits of n
    def __repr__(self):
        return "'<n>'"


class SymN:  # coeff * n
    def __init__(self, coeff=1):
        self.coeff = Fraction(coeff)

    def __repr__(self):
        return f"{self.coeff}*n"


class TD:  # timedelta(unit = amount) ; amount: SymN | int
    def __init__(self, unit: str, amount):
        self.unit, self.amount = unit, amount

    def __repr__(self):
        return f"timedelta({self.unit}={self.amount})"


class Opaque:
    def __init__(self, what):
        self.what = what

    def __repr__(self):
        return f"<{self.what}>"


class _Return(Exception):
    def __init__(self, v):
        self.v = v


class _Raise(Exception):
    def __init__(self, what):
        self.what = what


UNITS = ("days", "seconds", "microseconds", "milliseconds", "minutes", "hours", "weeks")


class Evaluator:
    def __init__(self, repo: Repo):
        self.repo = repo
        self.depth = 0

    # ------------------------------------------------------------------ functions
    def call_function(self, fi: FuncInfo, args, kwargs):
        self.depth += 1
        if self.depth > 12:
            raise Undecided("helper nesting too deep")
        try:
            a = fi.node.args
            if a.vararg or a.kwarg or a.posonlyargs:
                raise Undecided(f"{fi.qualname}: signature with *args/**kwargs")
            params = [x.arg for x in a.args]
            env: Dict[str, object] = {}
            if len(args) > len(params):
                raise Undecided(f"{fi.qualname}: too many arguments")
            for p, v in zip(params, args):
                env[p] = v
            for k, v in kwargs.items():
                if k not in params or k in env:
                    raise Undecided(f"{fi.qualname}: keyword {k}")
                env[k] = v
            defaults = dict(zip(params[len(params) - len(a.defaults):], a.defaults))
            for p in params:
                if p not in env:
                    if p not in defaults:
                        raise Undecided(f"{fi.qualname}: missing argument {p}")
                    env[p] = self.expr(defaults[p], {}, fi.module)
            try:
                self.block(fi.node.body, env, fi.module)
            except _Return as r:
                return r.v
            return None
        finally:
            self.depth -= 1

    # ------------------------------------------------------------------ statements
    def block(self, stmts, env, mi):
        for st in stmts:
            self.stmt(st, env, mi)

    def stmt(self, st, env, mi):
        if isinstance(st, ast.Return):
            raise _Return(self.expr(st.value, env, mi) if st.value is not None else None)
        if isinstance(st, ast.Raise):
            raise _Raise(ast.unparse(st.exc)[:60] if st.exc is not None else "re-raise")
        if isinstance(st, ast.Pass):
            return
        if isinstance(st, ast.Expr):
            if isinstance(st.value, ast.Constant):
                return
            self.expr(st.value, env, mi)
            return
        if isinstance(st, ast.Assign):
            v = self.expr(st.value, env, mi)
            for t in st.targets:
                self.assign(t, v, env)
            return
        if isinstance(st, ast.AnnAssign):
            if st.value is not None:
                self.assign(st.target, self.expr(st.value, env, mi), env)
            return
        if isinstance(st, ast.If):
            self.block(st.body if self.truth(self.expr(st.test, env, mi)) else st.orelse, env, mi)
            return
        if isinstance(st, ast.For) and not st.orelse:
            it = self.expr(st.iter, env, mi)
            if isinstance(it, dict):
                it = list(it)
            if not isinstance(it, (list, tuple)):
                raise Undecided(f"loop over {it!r}")
            for x in it:
                self.assign(st.target, x, env)
                try:
                    self.block(st.body, env, mi)
                except _Break:
                    break
                except _Continue:
                    continue
            return
        if isinstance(st, ast.Break):
            raise _Break()
        if isinstance(st, ast.Continue):
            raise _Continue()
        if isinstance(st, ast.Try) and not st.handlers and not st.orelse:
            self.block(st.body, env, mi)
            self.block(st.finalbody, env, mi)
            return
        raise Undecided(f"statement {type(st).__name__} `{ast.unparse(st)[:60]}`")

    def assign(self, t, v, env):
        if isinstance(t, ast.Name):
            env[t.id] = v
        elif isinstance(t, (ast.Tuple, ast.List)) and isinstance(v, (tuple, list)) and len(v) == len(t.elts):
            for a, b in zip(t.elts, v):
                self.assign(a, b, env)
        else:
            raise Undecided(f"assignment target `{ast.unparse(t)}`")

    # ------------------------------------------------------------------ expressions
    def truth(self, v) -> bool:
        if isinstance(v, (bool, int, str, type(None), list, tuple, dict, set, frozenset)):
            return bool(v)
        if isinstance(v, PStr):
            return True
        if isinstance(v, TD):
            if isinstance(v.amount, int):
                return v.amount != 0
        raise Undecided(f"truth value of {v!r}")

    def name(self, id_, env, mi: ModuleInfo):
        if id_ in env:
            return env[id_]
        if id_ in ("True", "False", "None"):
            return {"True": True, "False": False, "None": None}[id_]
        r = self.repo.resolve(mi, id_)
        if isinstance(r, tuple) and r and r[0] == "assign":
            return self.expr(r[2], {}, r[1])
        if isinstance(r, (FuncInfo, ClassInfo)):
            return r
        if id_ in ("str", "int", "float", "bool", "list", "dict", "tuple", "len", "isinstance", "timedelta", "datetime", "set", "frozenset", "sorted", "next", "iter"):
            return Opaque("builtin:" + id_)
        return Opaque("name:" + id_)

    def expr(self, e, env, mi):
        if isinstance(e, ast.Constant):
            return e.value
        if isinstance(e, ast.Name):
            return self.name(e.id, env, mi)
        if isinstance(e, ast.JoinedStr):
            return "<text>"
        if isinstance(e, (ast.List, ast.Tuple, ast.Set)):
            vals = [self.expr(x, env, mi) for x in e.elts]
            return tuple(vals) if isinstance(e, ast.Tuple) else vals
        if isinstance(e, ast.Dict):
            if any(k is None for k in e.keys):
                raise Undecided("dict display with **")
            out = {}
            for k, v in zip(e.keys, e.values):
                kk = self.expr(k, env, mi)
                if not isinstance(kk, (str, int)):
                    raise Undecided(f"dict key {kk!r}")
                out[kk] = self.expr(v, env, mi)
            return out
        if isinstance(e, ast.IfExp):
            return self.expr(e.body if self.truth(self.expr(e.test, env, mi)) else e.orelse, env, mi)
        if isinstance(e, ast.BoolOp):
            v = None
            for x in e.values:
                v = self.expr(x, env, mi)
                t = self.truth(v)
                if isinstance(e.op, ast.And) and not t:
                    return v
                if isinstance(e.op, ast.Or) and t:
                    return v
            return v
        if isinstance(e, ast.UnaryOp) and isinstance(e.op, ast.Not):
            return not self.truth(self.expr(e.operand, env, mi))
        if isinstance(e, ast.Compare):
            left = self.expr(e.left, env, mi)
            for op, c in zip(e.ops, e.comparators):
                right = self.expr(c, env, mi)
                if not self.compare(op, left, right):
                    return False
                left = right
            return True
        if isinstance(e, ast.Subscript):
            return self.subscript(self.expr(e.value, env, mi), e.slice, env, mi)
        if isinstance(e, ast.Attribute):
            base = self.expr(e.value, env, mi)
            if isinstance(base, ModuleInfo):
                return self.name(e.attr, {}, base)
            return ("attr", base, e.attr)
        if isinstance(e, ast.BinOp):
            return self.binop(e.op, self.expr(e.left, env, mi), self.expr(e.right, env, mi))
        if isinstance(e, ast.Call):
            return self.call(e, env, mi)
        raise Undecided(f"expression {type(e).__name__} `{ast.unparse(e)[:60]}`")

    def compare(self, op, a, b) -> bool:
        const = lambda v: isinstance(v, (str, int, bool, type(None)))
        if isinstance(op, (ast.Is, ast.IsNot)):
            if b is None or a is None:
                r = a is None and b is None
            elif const(a) and const(b):
                r = a == b
            else:
                raise Undecided(f"identity test {a!r} / {b!r}")
            return r if isinstance(op, ast.Is) else not r
        if isinstance(op, (ast.Eq, ast.NotEq)):
            if const(a) and const(b):
                r = a == b
            elif (isinstance(a, PStr) or isinstance(b, PStr)) and (const(a) or const(b)):
                k = a if const(a) else b
                if not isinstance(k, str) or len(k) <= 1 or not k[1:].isdigit():
                    r = False  # a prefix alone / a non-string never equals prefix+digits
                else:
                    raise Undecided("comparison of the name with a complete constant name")
            else:
                raise Undecided(f"comparison {a!r} == {b!r}")
            return r if isinstance(op, ast.Eq) else not r
        if isinstance(op, (ast.In, ast.NotIn)):
            if const(a) and isinstance(b, (list, tuple, dict, set, frozenset)):
                r = a in b
            elif isinstance(a, str) and isinstance(b, str):
                r = a in b
            elif isinstance(a, str) and isinstance(b, PStr) and len(a) == 1 and not a.isdigit():
                r = a == b.prefix
            else:
                raise Undecided(f"membership {a!r} in {b!r}")
            return r if isinstance(op, ast.In) else not r
        raise Undecided(f"comparison operator {type(op).__name__}")

    def subscript(self, base, sl, env, mi):
        if isinstance(base, PStr):
            if isinstance(sl, ast.Slice):
                lo = self.expr(sl.lower, env, mi) if sl.lower is not None else None
                hi = self.expr(sl.upper, env, mi) if sl.upper is not None else None
                if sl.step is None and lo == 1 and hi is None:
                    return Digits()
                if sl.step is None and lo in (None, 0) and hi == 1:
                    return base.prefix
                raise Undecided(f"slice of the name [{lo}:{hi}]")
            i = self.expr(sl, env, mi)
            if i == 0:
                return base.prefix
            raise Undecided(f"character {i!r} of the name")
        if isinstance(sl, ast.Slice):
            raise Undecided("slice")
        k = self.expr(sl, env, mi)
        if isinstance(base, dict):
            if k not in base:
                raise _Raise("KeyError")
            return base[k]
        if isinstance(base, (list, tuple, str)) and isinstance(k, int):
            if not -len(base) <= k < len(base):
                raise _Raise("IndexError")
            return base[k]
        raise Undecided(f"subscript of {base!r}")

    def binop(self, op, a, b):
        if isinstance(op, ast.Mult):
            for x, y in ((a, b), (b, a)):
                if isinstance(x, TD) and isinstance(x.amount, int) and isinstance(y, SymN):
                    return TD(x.unit, SymN(y.coeff * x.amount))
                if isinstance(x, TD) and isinstance(x.amount, int) and isinstance(y, int) and not isinstance(y, bool):
                    return TD(x.unit, x.amount * y)
                if isinstance(x, SymN) and isinstance(y, int) and not isinstance(y, bool):
                    return SymN(x.coeff * y)
            if isinstance(a, int) and isinstance(b, int):
                return a * b
        if isinstance(op, ast.Add) and isinstance(a, str) and isinstance(b, str):
            return a + b
        raise Undecided(f"arithmetic {a!r} {type(op).__name__} {b!r}")

    def call(self, e: ast.Call, env, mi):
        f = e.func
        args = []
        for a in e.args:
            if isinstance(a, ast.Starred):
                raise Undecided("*args at a call")
            args.append(self.expr(a, env, mi))
        kwargs = {}
        for k in e.keywords:
            v = self.expr(k.value, env, mi)
            if k.arg is None:
                if not isinstance(v, dict) or not all(isinstance(x, str) for x in v):
                    raise Undecided(f"** of {v!r}")
                kwargs.update(v)
            else:
                kwargs[k.arg] = v
        # method calls on modelled values
        if isinstance(f, ast.Attribute):
            base = self.expr(f.value, env, mi)
            m = f.attr
            if isinstance(base, ModuleInfo):
                tgt = self.name(m, {}, base)
                return self.apply(tgt, args, kwargs, m)
            if isinstance(base, PStr):
                if m in ("upper", "strip"):
                    return base
                if m == "startswith" and len(args) == 1 and isinstance(args[0], (str, tuple)):
                    cands = args[0] if isinstance(args[0], tuple) else (args[0],)
                    if all(isinstance(c, str) and len(c) <= 1 and not c.isdigit() for c in cands):
                        return any(c == "" or c == base.prefix for c in cands)
                raise Undecided(f"str.{m} on the name")
            if isinstance(base, str):
                if m == "upper" and not args:
                    return base.upper()
                if m == "startswith" and len(args) == 1 and isinstance(args[0], str):
                    return base.startswith(args[0])
                raise Undecided(f"str.{m}")
            if isinstance(base, dict):
                if m == "get" and 1 <= len(args) <= 2:
                    if not isinstance(args[0], (str, int, type(None))):
                        raise Undecided(f"dict.get({args[0]!r})")
                    return base.get(args[0], args[1] if len(args) == 2 else None)
                if m == "items" and not args:
                    return [(k, v) for k, v in base.items()]
                if m == "keys" and not args:
                    return list(base)
                if m == "values" and not args:
                    return list(base.values())
                raise Undecided(f"dict.{m}")
            if isinstance(base, ClassInfo):
                return Opaque(f"{base.name}.{m}")
            raise Undecided(f"method {m} on {base!r}")
        tgt = self.expr(f, env, mi)
        return self.apply(tgt, args, kwargs, ast.unparse(f))

    def apply(self, tgt, args, kwargs, text):
        if isinstance(tgt, FuncInfo):
            return self.call_function(tgt, args, kwargs)
        if isinstance(tgt, ClassInfo):
            return Opaque(f"{tgt.name}(...)")
        if isinstance(tgt, Opaque) and tgt.what.startswith(("builtin:", "name:")):
            nm = tgt.what.split(":", 1)[1]
            if nm == "isinstance" and len(args) == 2:
                return self.isinstance_(args[0], args[1])
            if nm == "int" and len(args) == 1:
                if isinstance(args[0], Digits):
                    return SymN(1)
                if isinstance(args[0], (int, str)) and not isinstance(args[0], bool):
                    try:
                        return int(args[0])
                    except ValueError:
                        raise _Raise("ValueError")
                raise Undecided(f"int({args[0]!r})")
            if nm == "str" and len(args) == 1 and isinstance(args[0], (PStr, str)):
                return args[0]
            if nm in ("list", "tuple") and len(args) == 1 and isinstance(args[0], (list, tuple, dict)):
                return list(args[0])
            if nm in ("set", "frozenset") and len(args) == 1 and isinstance(args[0], (list, tuple, dict)):
                return list(args[0])
            if nm == "len" and len(args) == 1 and isinstance(args[0], (list, tuple, dict, str)):
                return len(args[0])
            if nm == "timedelta":
                if args:
                    raise Undecided("positional timedelta arguments")
                live = {k: v for k, v in kwargs.items() if not (isinstance(v, int) and v == 0)}
                if not live:
                    return TD("seconds", 0)
                if len(live) != 1:
                    raise Undecided("timedelta with several components")
                (u, v), = live.items()
                if u not in UNITS:
                    raise _Raise(f"TypeError: timedelta({u}=...)")
                if isinstance(v, (SymN, int)) and not isinstance(v, bool):
                    return TD(u, v)
                raise Undecided(f"timedelta({u}={v!r})")
            if nm.endswith(("Error", "Exception", "InvalidTimeFrame")):
                return Opaque("exception")
        raise Undecided(f"call of {text}")

    def isinstance_(self, v, t):
        ts = t if isinstance(t, (tuple, list)) else (t,)
        res = False
        for x in ts:
            if isinstance(x, Opaque) and x.what == "builtin:str":
                res = res or isinstance(v, (PStr, str))
            elif isinstance(x, Opaque) and x.what in ("builtin:int", "builtin:float", "builtin:bool", "builtin:list", "builtin:dict", "builtin:tuple"):
                py = {"int": int, "float": float, "bool": bool, "list": list, "dict": dict, "tuple": tuple}[x.what.split(":")[1]]
                res = res or (not isinstance(v, (PStr, Digits, SymN, TD, Opaque)) and isinstance(v, py))
            elif isinstance(x, ClassInfo):
                if isinstance(v, (PStr, str, int, type(None))):
                    res = res or False
                else:
                    raise Undecided(f"isinstance({v!r}, {x.name})")
            else:
                raise Undecided(f"isinstance(.., {x!r})")
        return res


class _Break(Exception):
    pass


class _Continue(Exception):
    pass


def evaluate_prefix(repo: Repo, fi: FuncInfo, prefix: str):
    """("return", value) | ("raise", what) | ("undecided", why) for  fi("<prefix><n>")"""
    ev = Evaluator(repo)
    try:
        return ("return", ev.call_function(fi, [PStr(prefix)], {}))
    except _Raise as r:
        return ("raise", r.what)
    except Undecided as u:
        return ("undecided", str(u))
    except (_Break, _Continue):
        return ("undecided", "break/continue outside a loop")
    except RecursionError:
        return ("undecided", "recursion")
