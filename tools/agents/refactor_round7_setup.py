#!/usr/bin/env python3
"""Set-up of refactor round 7: everyday clean-ups, each agent with an assigned focus area (functions the earlier rounds touched least)."""
import json, os, subprocess, glob
ROOT = '/tmp/ref7'
props = [json.loads(l) for l in open('/verif/properties.jsonl')]
FOCUS = {
 'C01': "hexital/core/candle_manager.py: collapse_candles and fill_missing_candles",
 'C02': "hexital/core/candle.py: merge, save_clean_values, recover_clean_values, reset_candle, raw_copy",
 'C03': "hexital/core/candle_manager.py: _tasks, convert_candles, trim_candles, name property; hexital/core/candlestick_type.py",
 'C04': "hexital/indicators/ (the moving averages: sma.py, ema.py, wma.py, hma.py, rma.py, vwma.py, kc.py) -- _calculate_reading / _initialise / _validate_fields / _generate_name",
 'C05': "hexital/indicators/ (rsi.py, roc.py, tsi.py, stoch.py, macd.py, adx.py) -- _calculate_reading / _initialise / _validate_fields",
 'C06': "hexital/indicators/ (atr.py, tr.py, obv.py, vwap.py, stdev.py, bbands.py, donchian.py, supertrend.py, highest_lowest.py, counter.py ...)",
 'C07': "hexital/core/indicator.py: calculate, calculate_index, _find_calc_index, _calculate_sub_indicators, _set_reading, _set_active_index",
 'C08': "hexital/core/indicator.py: __post_init__, name / settings / __str__, _internal_generate_name, as_list, the candle_manager setter",
 'C09': "hexital/core/indicator.py: the reading helpers (reading, prev_reading, prev_exists, read_candle, reading_count, reading_period, candles_sum, has_reading) and hexital/utils/candles.py",
 'C10': "hexital/utils/indexing.py (absindex, valid_index, round_values ...) and the indexing done by hexital/utils/candles.py (reading_by_index, reading_count, reading_period, candles_sum)",
 'C11': "hexital/candlesticks/ (heikinashi.py) and hexital/core/candlestick_type.py, hexital/utils/candlesticks.py",
 'C12': "hexital/utils/timeframe.py: timeframe_to_timedelta, round_down_timestamp, clean_timestamp, on_timeframe / within_timeframe, validate_timeframe",
 'C13': "hexital/core/hexital.py: append, purge, remove_indicator, add_indicator, calculate, calculate_index, recalculate",
 'C14': "hexital/core/indicator.py: purge, _purge_names, recalculate, add_sub_indicator / add_managed_indicator and the Managed class",
 'C15': "hexital/core/indicator.py: _find_calc_index, calculate, append; hexital/core/candle_manager.py: append, purge, find_indicator",
 'C16': "hexital/analysis/patterns.py (doji, hammer, dojistar, engulfing ... ) and hexital/analysis/utils.py",
 'C17': "hexital/analysis/movement.py: above/below, cross, crossover/crossunder, rising/falling, mean_rising/mean_falling, flipped, value_range, percent_change",
 'C18': "hexital/utils/timeframe.py and the timestamp handling in hexital/core/candle_manager.py (collapse_candles, fill_missing_candles, trim_candles)",
 'C19': "hexital/core/hexital.py: candles, get_candles, timeframes, indicator(s), indicator_settings, has_reading, reading, prev_reading, reading_as_list",
 'C20': "hexital/indicators/amorph.py and hexital/core/hexital.py: _build_indicator / _validate_indicators; hexital/analysis/__init__.py maps",
}
base = '''# Refactoring task, round 7 (everyday, behaviour-preserving clean-ups)

You are helping test a verification effort for the Python library Hexital (a pure-Python incremental technical-analysis library:
candle manager with timeframe collapsing, ~27 streaming indicators, pattern/movement detectors).  You are given a property id `Cnn`.

* Your scratch git worktree of the library is `/tmp/ref7/Cnn` (a detached checkout; work ONLY inside it; never touch `/repo` or
  `/verif`, and do not read anything under `/verif`).  Do NOT use `git stash` (it is shared between worktrees).  Do not `pkill -f`.
* The property is described in `/tmp/ref7/Cnn.property.json` (statement, quantifier, anchors).  Read it first: the refactorings must
  leave it true for every input / schedule / configuration.
* `/tmp/ref7/Cnn.focus.md` names the FOCUS AREA assigned to you: the files / functions your three refactorings should restructure
  (different agents get different areas; stay inside yours unless a caller has to follow a signature you changed).
* `/tmp/ref7/Cnn.tried.md` lists refactorings ALREADY produced in earlier rounds: do not repeat them or close variants.

## Task
Produce THREE independent, realistic, BEHAVIOUR-PRESERVING refactorings inside your focus area (files under `/tmp/ref7/Cnn/hexital/`
only) -- the everyday clean-ups a maintainer commits without intending any change in behaviour.  Each must be a real restructuring
(not comments / formatting / pure renames of one local), touch 8-60 lines, and use a different style.  Everyday styles (pick three
different ones, combine two small ones if needed): extract variable / inline variable; extract method or static helper / inline a
small method; guard clauses <-> nested ifs; loop <-> comprehension / any / all / next / sum / max / min; explicit index loop <->
enumerate / zip / slicing / reversed; merge duplicated branches; hoist a loop invariant; ternary <-> if/else; `x if x else d` <-> `or`;
walrus; dict.get / setdefault / update idioms; tuple unpacking; early continue; replacing a flag variable by a return / for-else;
de-duplicating two sibling functions through a shared parameterised helper; turning magic numbers / strings into module constants;
replacing a small if-ladder by a lookup table; replacing `type(x) == T`-style or chained isinstance by tuple isinstance; simplifying
boolean expressions (De Morgan, comparison chaining); introducing a local alias for a long attribute path (only where the attribute
is not rebound in between!).
Be careful that the refactoring is REALLY equivalent in every corner (index 0, negative indices, None / 0 / False readings, empty
lists, ties, boundaries, zero volume, repeated appends, state kept between calls, several timeframes, exceptions raised and the state
left behind when they are, aliasing of lists / dicts ...).  If you are not sure, pick another refactoring.

Each refactoring, on its own, must:
1. keep the EXISTING test suite passing completely (325 tests):
   `cd /tmp/ref7/Cnn && /venv/bin/python -m pytest -q -p no:cacheprovider -n 4`
2. be shown equivalent by a differential program `equiv.py` that you write: it imports the library from the current directory,
   exercises the affected behaviour broadly (many random and corner-case inputs / schedules, fixed seed) and prints a digest (sha256 of
   a canonical dump of all observed results, exception types included, object addresses stripped).  Run it on HEAD and with the
   refactoring applied: the digests must be identical.  Check that a small deliberate behaviour change in the refactored function DOES
   change the digest.  Keep its run time under one minute.

## Deliverables
For each refactoring X in {a, b, c} write, under `/tmp/ref7/Cnn/SEED/X/`:
* `patch.diff` : `git diff` of ONLY that refactoring against the worktree's HEAD (applies to a clean checkout with `git apply`; new
  files must be included: use `git add -N` before `git diff`),
* `equiv.py`   : the differential program (run as `cd <checkout> && /venv/bin/python SEED/X/equiv.py`, must put the current directory
  first on `sys.path`, prints one line `DIGEST <hex>`),
* `meta.json`  : {"property": "Cnn", "summary": "...what was restructured...", "why_equivalent": "...argument, incl. the corners...",
  "files": [...], "digest_head": "<hex>", "digest_patched": "<hex>", "ran": ["commands you ran and their outcome"]}.

Procedure for each: make the edit, run the full suite (325 passed), run equiv.py (record digest), save the diff,
`git -C /tmp/ref7/Cnn checkout -- hexital` (and delete new files under hexital/), run equiv.py on HEAD (same digest).  At the end the
worktree's tracked files must be back at HEAD (git status shows only the untracked SEED/ directory).

Report briefly (at most 12 lines): one or two lines per refactoring on what it is and why it is equivalent.
'''
open(f'{ROOT}/INSTRUCTIONS.md', 'w').write(base)
for p in props:
    pid = p['id']
    if pid not in ('C01','C03','C05','C07','C09','C11','C13','C15','C17','C19'):
        continue
    json.dump(p, open(f'{ROOT}/{pid}.property.json', 'w'), indent=1)
    _ids = sorted(FOCUS); _f = FOCUS[_ids[(_ids.index(pid) + 13) % len(_ids)]]
    open(f'{ROOT}/{pid}.focus.md', 'w').write(f"# Focus area for {pid}\n\n{_f}\n")
    tried = []
    for m in sorted(glob.glob('/verif/refactors/*-r5*/meta.json')) + sorted(glob.glob('/verif/refactors/*-r6*/meta.json')):
        try:
            d = json.load(open(m)); tried.append(f"* {str(d.get('summary',''))[:400]}")
        except Exception:
            pass
    open(f'{ROOT}/{pid}.tried.md', 'w').write(f"# Refactorings already produced for {pid}\n\n" + "\n".join(tried) + "\n")
    if not os.path.exists(f'{ROOT}/{pid}'):
        subprocess.run(['git', '-C', '/repo', 'worktree', 'add', '-q', '--detach', f'{ROOT}/{pid}', 'HEAD'], check=True)
print('ok')
