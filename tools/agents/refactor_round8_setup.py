#!/usr/bin/env python3
"""Set-up of refactor round 8: everyday clean-ups, each agent with an assigned focus area (functions the earlier rounds touched least)."""
import json, os, subprocess, glob
ROOT = '/tmp/ref8'
props = [json.loads(l) for l in open('/verif/properties.jsonl')]
FOCUS = {
 'C06': "hexital/indicators/macd.py and tsi.py: _validate_fields, _initialise, _calculate_reading (the None / presence guards, the order of fast / slow periods, how helper readings are fetched and combined)",
 'C07': "hexital/utils/candles.py: candles_sum, reading_period, reading_count, reading_by_index (slicing, windows, loops) and their wrappers in hexital/core/indicator.py",
 'C08': "hexital/core/candlestick_type.py and hexital/candlesticks/heikinashi.py; hexital/core/hexital.py: _validate_indicators",
 'C09': "hexital/indicators/hma.py, adx.py, supertrend.py, rsi.py, stdev.py, vwap.py: _calculate_reading (guards, managed series written through Managed.set_reading / direct stores, early returns)",
 'C10': "hexital/utils/indexing.py: round_values, absindex, valid_index; hexital/indicators/macd.py, aroon.py, donchian.py, bbands.py, kc.py: how the output dict is assembled",
 'C11': "hexital/core/candle_manager.py: fill_missing_candles and the construction of the fill candle; collapse_candles' calls of it",
 'C12': "hexital/core/hexital.py: __init__, _validate_indicators, _build_indicator, append (how managers are created and configured)",
 'C20': "hexital/utils/candles.py: reading_by_candle, reading_count (dotted names), hexital/core/indicator.py: reading, prev_reading, has_reading, reading_as_list / as_list",
}
base = '''# Refactoring task, round 8 (everyday, behaviour-preserving clean-ups)

You are helping test a verification effort for the Python library Hexital (a pure-Python incremental technical-analysis library:
candle manager with timeframe collapsing, ~27 streaming indicators, pattern/movement detectors).  You are given a property id `Cnn`.

* Your scratch git worktree of the library is `/tmp/ref8/Cnn` (a detached checkout; work ONLY inside it; never touch `/repo` or
  `/verif`, and do not read anything under `/verif`).  Do NOT use `git stash` (it is shared between worktrees).  Do not `pkill -f`.
* The property is described in `/tmp/ref8/Cnn.property.json` (statement, quantifier, anchors).  Read it first: the refactorings must
  leave it true for every input / schedule / configuration.
* `/tmp/ref8/Cnn.focus.md` names the FOCUS AREA assigned to you: the files / functions your two refactorings should restructure
  (different agents get different areas; stay inside yours unless a caller has to follow a signature you changed).
* `/tmp/ref8/Cnn.tried.md` lists refactorings ALREADY produced in earlier rounds: do not repeat them or close variants.

## Task
Produce TWO independent, realistic, BEHAVIOUR-PRESERVING refactorings inside your focus area (files under `/tmp/ref8/Cnn/hexital/`
only) -- the everyday clean-ups a maintainer commits without intending any change in behaviour.  Each must be a real restructuring
(not comments / formatting / pure renames of one local), touch 8-60 lines, and use a different style.  Everyday styles (pick two
different ones, combine two small ones if needed): extract variable / inline variable; extract method or static helper / inline a
small method; guard clauses <-> nested ifs; loop <-> comprehension / any / all / next / sum / max / min; explicit index loop <->
enumerate / zip / slicing / reversed; merge duplicated branches; hoist a loop invariant; ternary <-> if/else; `x if x else d` <-> `or`;
walrus; dict.get / setdefault / update idioms; tuple unpacking; early continue; replacing a flag variable by a return / for-else;
de-duplicating two sibling functions through a shared parameterised helper; turning magic numbers / strings into module constants;
replacing a small if-ladder by a lookup table; replacing `type(x) == T`-style or chained isinstance by tuple isinstance; simplifying
boolean expressions (De Morgan, comparison chaining); introducing a local alias for a long attribute path (only where the attribute
is not rebound in between!).
Be careful that the refactoring is REALLY equivalent in every corner (index 0, negative indices, None / 0 / False readings, empty
lists, ties, boundaries, zero volume, repeated appends, state kept between calls, several timeframes, exceptions raised and the state
left behind when they are, aliasing of lists / dicts ...).  If you are not sure, pick another refactoring.

Each refactoring, on its own, must:
1. keep the EXISTING test suite passing completely (325 tests):
   `cd /tmp/ref8/Cnn && /venv/bin/python -m pytest -q -p no:cacheprovider -n 4`
2. be shown equivalent by a differential program `equiv.py` that you write: it imports the library from the current directory,
   exercises the affected behaviour broadly (many random and corner-case inputs / schedules, fixed seed) and prints a digest (sha256 of
   a canonical dump of all observed results, exception types included, object addresses stripped).  Run it on HEAD and with the
   refactoring applied: the digests must be identical.  Check that a small deliberate behaviour change in the refactored function DOES
   change the digest.  Keep its run time under one minute.

## Deliverables
For each refactoring X in {a, b} write, under `/tmp/ref8/Cnn/SEED/X/`:
* `patch.diff` : `git diff` of ONLY that refactoring against the worktree's HEAD (applies to a clean checkout with `git apply`; new
  files must be included: use `git add -N` before `git diff`),
* `equiv.py`   : the differential program (run as `cd <checkout> && /venv/bin/python SEED/X/equiv.py`, must put the current directory
  first on `sys.path`, prints one line `DIGEST <hex>`),
* `meta.json`  : {"property": "Cnn", "summary": "...what was restructured...", "why_equivalent": "...argument, incl. the corners...",
  "files": [...], "digest_head": "<hex>", "digest_patched": "<hex>", "ran": ["commands you ran and their outcome"]}.

Procedure for each: make the edit, run the full suite (325 passed), run equiv.py (record digest), save the diff,
`git -C /tmp/ref8/Cnn checkout -- hexital` (and delete new files under hexital/), run equiv.py on HEAD (same digest).  At the end the
worktree's tracked files must be back at HEAD (git status shows only the untracked SEED/ directory).

Report briefly (at most 12 lines): one or two lines per refactoring on what it is and why it is equivalent.
'''
open(f'{ROOT}/INSTRUCTIONS.md', 'w').write(base)
for p in props:
    pid = p['id']
    if pid not in FOCUS:
        continue
    json.dump(p, open(f'{ROOT}/{pid}.property.json', 'w'), indent=1)
    _f = FOCUS[pid]
    open(f'{ROOT}/{pid}.focus.md', 'w').write(f"# Focus area for {pid}\n\n{_f}\n")
    tried = []
    for m in sorted(glob.glob('/verif/refactors/*-r7*/meta.json')):
        try:
            d = json.load(open(m)); tried.append(f"* {str(d.get('summary',''))[:400]}")
        except Exception:
            pass
    open(f'{ROOT}/{pid}.tried.md', 'w').write(f"# Refactorings already produced for {pid}\n\n" + "\n".join(tried) + "\n")
    if not os.path.exists(f'{ROOT}/{pid}'):
        subprocess.run(['git', '-C', '/repo', 'worktree', 'add', '-q', '--detach', f'{ROOT}/{pid}', 'HEAD'], check=True)
print('ok')
