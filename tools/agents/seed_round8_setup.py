#!/usr/bin/env python3
"""Set-up of seed round 8 (two changes per property, letters o / p)."""
import json, os, subprocess, glob
ROOT = '/tmp/seed8'
props = [json.loads(l) for l in open('/verif/properties.jsonl')]
base = '''# Bug-seeding task (round 8)

You are helping test a verification effort by acting as a "bug seeder" for the Python library Hexital (a pure-Python
incremental technical-analysis library: candle manager with timeframe collapsing, ~27 streaming indicators, pattern/movement
detectors).  You are given a property id `Cnn`.

* Your scratch git worktree of the library is `/tmp/seed8/Cnn` (a detached checkout; work ONLY inside it; never touch
  `/repo` or `/verif`, and do not read anything under `/verif`).  Do NOT use `git stash` (shared between worktrees); no `pkill -f`.
* The property you must break is described in `/tmp/seed8/Cnn.property.json` (read it first: statement, quantifier, anchors).
  The property text may describe defects that exist "today"; most of them have ALREADY BEEN REPAIRED on this HEAD.
  Known remaining weaknesses that you must NOT reuse: STOCH and VWMA divide by zero on flat / zero-volume windows; TSI returns
  None when its denominator rounds to 0; a top-level indicator whose override name equals another indicator's helper name shadows it.
* `/tmp/seed8/Cnn.tried.md` lists the changes ALREADY produced for this property in seven earlier rounds: do not repeat them or
  close variants (same function + same kind of mistake).

## Task
Produce TWO independent, realistic source changes to the library (files under `/tmp/seed8/Cnn/hexital/` only) such that each
change, on its own:
1. BREAKS the property (the behaviour it describes no longer holds for some input / schedule / configuration),
2. still imports and the EXISTING test suite still passes completely (325 tests):
   `cd /tmp/seed8/Cnn && /venv/bin/python -m pytest -q -p no:cacheprovider -n 4`
3. needs something SPECIFIC to manifest -- a particular multi-step sequence of operations, an unusual input, a particular
   append schedule or configuration, or two cooperating sites that each look fine alone -- NOT something ordinary use exposes at once.

This is a late round: the obvious ideas are used up.  Prefer changes that LOOK LIKE ordinary maintenance: a clean-up / refactoring
that is equivalent except in one corner (an alias or a length cached one statement too early, a loop turned into a comprehension
that drops a case, a guard clause that returns before a needed step, `or` instead of `is None`, a helper extracted with one argument
swapped, a lookup table missing an entry, De Morgan applied wrongly at a boundary, a slice off by one), a small "robustness" or
"performance" improvement (caching, early exit, skipping "unnecessary" work, coercing input), a changed default, a re-ordering of
two steps.  The change should be something a maintainer could plausibly commit and a reviewer could plausibly approve.
Do not add obviously malicious code, do not edit tests, do not just raise exceptions unconditionally.
The two changes should be of different kinds and in different functions / files.

## Deliverables
For each change X in {a, b} write, under `/tmp/seed8/Cnn/SEED/X/`:
* `patch.diff` : `git diff` of ONLY that change against the worktree's HEAD (so `git apply patch.diff` applies to a clean checkout),
* `demo.py` : a small stand-alone program, run as `cd <checkout> && /venv/bin/python SEED/X/demo.py` (it must put the current
  directory first on `sys.path`), that exits 0 on the unmodified HEAD and exits non-zero when the patch is applied, demonstrating
  the property violation through the public API,
* `meta.json` : {"property": "Cnn", "summary": "...what was changed...", "needs": "...what is needed for it to manifest...",
  "files": [...], "ran": ["commands you ran and their outcome"]}.

Procedure for each: make the edit, run the full suite (must be 325 passed), run demo.py (must fail), save the diff, then
`git -C /tmp/seed8/Cnn checkout -- hexital` to restore HEAD, run demo.py again (must pass).  At the end the worktree's tracked
files must be back at HEAD (git status shows only the untracked SEED/ directory).

If after serious effort you can only produce one valid change, produce one.  Report briefly: for each change one paragraph on
what it is and what triggers it, and the test/demonstration outcomes you observed.
'''
open(f'{ROOT}/INSTRUCTIONS.md', 'w').write(base)
for p in props:
    pid = p['id']
    json.dump(p, open(f'{ROOT}/{pid}.property.json', 'w'), indent=1)
    tried = []
    for m in sorted(glob.glob(f'/verif/seeded/{pid}-*/meta.json')):
        try:
            d = json.load(open(m)); tried.append(f"* {str(d.get('summary',''))[:350]}")
        except Exception:
            pass
    open(f'{ROOT}/{pid}.tried.md', 'w').write(f"# Changes already produced for {pid}\n\n" + "\n".join(tried) + "\n")
    if not os.path.exists(f'{ROOT}/{pid}'):
        subprocess.run(['git', '-C', '/repo', 'worktree', 'add', '-q', '--detach', f'{ROOT}/{pid}', 'HEAD'], check=True)
print('ok')
