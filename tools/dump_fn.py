import sys, ast
sys.path.insert(0,'/verif')
from hexlint.model import Repo
repo=Repo(sys.argv[1])
mod,name=sys.argv[2],sys.argv[3]
mi=repo.module(mod)
for n in ast.walk(mi.tree):
    if isinstance(n,(ast.FunctionDef,ast.ClassDef)) and n.name==name:
        print(ast.unparse(n)); print()
print("residual:",repo.residual)
