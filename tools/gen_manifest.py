#!/usr/bin/env python3
"""regenerates /verif/MANIFEST.json from the table below (kept next to the checks so that it stays valid)"""
import json, os

HERE = os.path.dirname(os.path.dirname(os.path.abspath(__file__)))
ALL = [f"C{i:02d}" for i in range(1, 21)]

CLAIMED = {}   # filled by entries below: id -> dict(text=..., note=..., technique=..., design=...)


def claim(pid, text, note, technique, design):
    CLAIMED[pid] = dict(text=text, note=note, technique=technique, design=design)


NA = {}


def na(pid, reason):
    NA[pid] = reason


exec(open(os.path.join(HERE, "tools", "manifest_entries.py")).read())

checks = []
for pid in ALL:
    if pid in CLAIMED:
        c = CLAIMED[pid]
        checks.append({
            "property_id": pid,
            "quick_cmd": f"./check {pid} --tier quick",
            "thorough_cmd": f"./check {pid} --tier thorough",
            "evidence_file": f"/verif/evidence/{pid}.json",
            "replay_cmd_template": f"./check {pid} --replay {{path}}",
            "engine": "hexlint",
            "level_claimed": {"category": "other", "text": c["text"], "design_ref": c["design"]},
            "level_note": c["note"],
            "technique": c["technique"],
        })
man = {
    "version": 1,
    "setup_cmd": "/venv/bin/python -m compileall -q hexlint >/dev/null 2>&1 || true",
    "hooks": {
        "guard": "HEXITAL_VERIF",
        "enable": "no hooks: every check is a static analysis of /repo's source; the guard name is reserved and unused",
        "baseline_off_cmd": "cd /repo && /venv/bin/python -m pytest -ra -q -p no:cacheprovider --timeout=900 --continue-on-collection-errors",
        "source_commits": [],
        "add_only": True,
    },
    "engines": [{"name": "hexlint", "path": "/verif/hexlint", "serves_properties": sorted(CLAIMED), "kind_free_text": "repository-specific static analyser: ast loader/resolver, path-sensitive abstract interpreter with polynomial value numbering, polyhedra (Fourier-Motzkin) position domain, sign domain, effect and ordering rules"}],
    "checks": checks,
    "notes": "All checks are static analyses (no repository code is executed, no solver). Exit 0 = every obligation discharged (known findings printed as KNOWN-FINDING), 1 = VIOLATION, 2 = ANALYSIS-ERROR (anchor vanished / unmodelled idiom / site count below floor). Genuine defects found on the pinned tree were repaired by 'fix:' commits in /repo (listed in known_findings.json as fixed) or are listed there as known.",
    "not_applicable": [{"property_id": p, "reason": NA.get(p, "check under construction in this build round (see DESIGN.md §4)")} for p in ALL if p not in CLAIMED],
}
json.dump(man, open(os.path.join(HERE, "MANIFEST.json"), "w"), indent=1)
print("claimed", sorted(CLAIMED), "na", len(man["not_applicable"]))
