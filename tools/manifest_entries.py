claim("C16",
      "Decides, for every input at once, the structural clauses of C16: every positional read/slice in every MOVEMENT_MAP/PATTERN_MAP function (callees inlined) is built from the normalised index, is >= 0 and <= the evaluated index for all arguments, and every ordering/arithmetic on a looked-up reading is presence-guarded; Amorph passes the absolute index. These are the property's own conditions (same answer on the truncated list, same answer for the negative index, no raise on missing readings) expressed as obligations on the code; a static proof over all arguments is the right level because the tests only sample the default index.",
      "Trusted: the hexlint abstract interpreter and its Fourier-Motzkin entailment; the contracts of absindex/valid_index (checked against their bodies in C20); the six reviewed len(candles) validity guards frozen in rules_analysis.py. Does not decide what the predicates mean (C17).",
      "abstract interpretation + polyhedra entailment of position obligations (R-NORM/R-WRAP/R-CAUSAL/R-NONE)",
      "DESIGN.md §4 C16, §3 position rules")
claim("C01",
      "Decides the structural preconditions of the batch==incremental induction for all indicators and inputs: reads of _calculate_reading(t) lie in [0,t] and writes hit index t of own series (abstract interpretation + polyhedra entailment), formula code keeps no state on the object, the sweep starts at a sound resume index and skips present readings, sub-indicators run before/after the parent, append = manager tasks then calculate, every path through CandleManager.append extends the list and runs _tasks() (no fast path), Candle.merge is reachable from the bucket walk only, merge restores raw values and wipes the bucket. Equality of readings on collapsing timeframes also rests on the collapse walk invariant, decided under C03.",
      "Assumes no trimming and input contiguity for the inductive warm-up bound; the collapsed candle list's schedule independence is not decided. Trusted: hexlint engine.",
      "abstract interpretation (position obligations) + syntax-directed ordering/typestate rules",
      "DESIGN.md §4 C01")
claim("C02",
      "Decides 'no look-ahead, written once' structurally for every input: every positional read in the 27 formulas and in all movement/pattern functions is proven to lie in [0, evaluated index] (a negative position is a read of the newest candle), every write targets the evaluated index and an own series, the sweep skips present readings, the resume mark is key membership, and collapse merges only into the last bucket and re-labels only the candle being placed.",
      "Does not decide that collapse never re-labels an earlier bucket for every timestamp pattern (needs C03's loop invariant). Inductive warm-up bound assumes no trimming.",
      "abstract interpretation + Fourier-Motzkin entailment of R-WRAP/R-CAUSAL/R-WRITE obligations",
      "DESIGN.md §4 C02")
claim("C07",
      "Decides the O(1)-per-append guarantee as a shape of the code: every loop/reduction/slice reachable from a calculation has a trip count bounded by a configuration-linear expression (proved in the polyhedra domain for clamped windows), helper recompute ranges have length 1, no whole-history function is reachable from the calculation path in the resolved call graph, and the sweep starts from a newest-first resume scan and skips present readings. A regression that recomputes history returns identical values, so only a structural/complexity argument can see it.",
      "collapse/trim/fill are O(n) per append and outside the property's observation scope (noted). Call graph resolution is name/receiver based and conservative; helper construction in _initialise is treated as one-shot.",
      "loop-bound analysis + call-graph reachability (R-BOUND/R-SPAN/R-HISTORY)",
      "DESIGN.md §4 C07")
claim("C09",
      "Exception-source audit over all inputs: every division, sqrt, truthiness-as-presence test and literal helper/field name in the calculation scope is enumerated from the abstract interpretation and discharged by sign analysis (with inductive helper summaries and compositional sign tracking), dominating non-zero facts, or resolution in the composition tree. Genuine zero-denominator defects that remain (STOCH, VWMA, TSI) are listed as known findings.",
      "Assumes well-formed candles, positive price input, periods >= 2, positive multipliers; overflow to inf and None-arithmetic beyond the contiguity assumption are not decided.",
      "abstract interpretation + sign domain (R-DIV/R-SQRT/R-TRUTH/R-WIRE)",
      "DESIGN.md §4 C09")
claim("C18",
      "Closed-world effect analysis: no API through which the process time zone can reach bucket edges is called anywhere in the package (datetime.timestamp(), fromtimestamp without tz, now/today, astimezone, time.*, os.environ), and the import closure stays inside a reviewed allow-list. This decides the property for every zone, date and timeframe at once; a zero-expected rule, so a built-in positive example must match on every run.",
      "Trusts that the allow-listed standard-library modules consult TZ only through the listed APIs; tz-aware timestamps are bucketed in their own frame.",
      "closed-world effect analysis over Call nodes and imports (R-TZ)",
      "DESIGN.md §4 C18")
claim("C19",
      "Write-effect analysis to a fixed point over the resolved call graph with flow-sensitive aliasing: every listed read-only accessor (Indicator, Hexital, Candle, CandleManager, utils) has an empty effect set and every converter leaves its input containers untouched; the append type dispatch routes every encoding from_list/from_dict recognise to the one constructor with the six slots, Hexital.append fans the same object out to every manager unconditionally and non-default managers deep-copy. Holds for every object state and call interleaving because it is a fact about the code's effects.",
      "Mutation through C-level builtins other than the listed container mutators is assumed absent; Candle objects handed to the default manager are adopted by design.",
      "interprocedural write-effect/alias analysis (R-EFFECT) + dispatch/sibling agreement (R-DISPATCH)",
      "DESIGN.md §4 C19")
claim("C20",
      "All accessors reach readings only through the single resolver (call-graph closure, R-FUNNEL); valid_index/absindex/reading_by_index are abstractly interpreted and shown equal to their contracts in the polyhedra domain (valid iff -n <= i < n, None exactly for invalid indices); no accessor or resolver tests a reading by truthiness; accessors keep no state; presence tests are `is not None`. Agreement of values across several managers of one Hexital is not decided.",
      "Which manager wins for a name held by several managers is a run-time search order and is not decided.",
      "call-graph funnel check + abstract interpretation of index helpers against contracts + truthiness/effect rules",
      "DESIGN.md §4 C20")
claim("C08",
      "Decides the structural clauses of member==standalone: writer/reader table agreement for every name and key settings can emit (R-TABLE), manager binding on every path with the Hexital-level configuration and per-manager deep copies (R-BIND, R-ALIAS), unconditional propagation of a new manager to all helpers (R-REBIND), ownership of candle data (R-OWN) and the unconditional fan-out of appends. These hold for all indicator sets, forms and schedules because they are facts about tables and code shape.",
      "Value equality with a standalone twin under all schedules is a comparison of two executions and is not decided.",
      "table agreement + syntax-directed binding/alias/ownership rules",
      "DESIGN.md §4 C08")
claim("C13",
      "Non-interference follows from name discipline, decided for every shipped class and depth: helper names in the composition closure are extensions of the owner's name (R-NS), formulas write only their own series at the evaluated index (R-WRITE), only the owners write candle data and reading dicts (R-OWN), purge hands the manager only own names and the manager removes exactly those (R-PURGE, R-PURGE-EXACT), Hexital selects by name equality (R-SELECT), and a shared timeframe manager is configured from the Hexital, never from the indicator that happens to create it (R-BIND). The resolver's lookup order is a recorded known finding (adversarial override names).",
      "Assumes top-level names are distinct and do not equal another indicator's helper name (otherwise known finding R-LOOKUP).",
      "symbolic evaluation of _initialise (composition graph) + namespace/ownership rules",
      "DESIGN.md §4 C13")
claim("C14",
      "Decides: purge's name set is the transitive closure of helper names, computed statelessly, and the manager removes exactly it; recalculate = purge;calculate; calculate is idempotent (skip-present sweep from a sound resume index); calculate_index normalises negative indices before use and moves the managed helpers' cursor; the candle_manager setter reaches every helper; Hexital operations select by exact name; every append reaches every manager and every indicator (manager.append -> tasks -> calculate on all paths). Convergence after arbitrary operation sequences is not decided.",
      "Operation-sequence convergence quantifies over run-time histories and is not decided.",
      "abstract evaluation of the purge name set + syntax-directed normalisation/ordering rules",
      "DESIGN.md §4 C14")
claim("C03",
      "Decides right-closed, right-labelled resampling by an inductive argument over the collapse walk, for all timestamps: (1) the merge aggregator by value numbering; (2) for every branch (walk interpreted once with a symbolic window) the label a candle is filed under satisfies label - tf < ts <= label and lies on the bucket grid, proved in the polyhedra domain with the rounding axioms; (3) the predicate 'label of the last bucket is the window start or end, end = start + tf' holds on entry and is re-established by every branch (inductive invariant by predicate abstraction); under it and the precondition that a candle is not older than the last bucket (true for non-decreasing streams and for re-collapsing old buckets plus new candles, by (2)'s lower bound) (4) no path reaches the InvalidCandleOrder arm and (5) every appended label is strictly greater than the last one; (6) every path places the popped candle exactly once and stores the rebuilt list; merges go to the last bucket only; the bucket-edge helpers are floor-division/modulo of one elapsed-time expression; each timeframe of a Hexital collapses its own deep copy. Together: each candle lands in its bucket, buckets are strictly increasing and aggregate by (1), for every stream and append composition.",
      "Assumes whole-second timestamps (clean_timestamp is the identity on the axis) and present timestamps (a first candle without timestamp returns early; noted). Interplay with gap filling is C12; trimming C15.",
      "abstract interpretation with symbolic window: per-branch Fourier-Motzkin proofs, inductive invariant by predicate abstraction, totality and monotonicity; value numbering of merge and bucket helpers",
      "DESIGN.md §4 C03, §10")
claim("C11",
      "Decides the HA formulas on both cases by flow-sensitive value numbering of convert_candle's post-state, the conversion typestate (save -> convert -> reset -> tag, once per candle, ascending), the soundness of the resume scan's fall-through, statelessness of the shared converter, merge's restore/clear protocol and the task order. Equality with the recurrence under every append composition is not decided.",
      "Equality under all append compositions (and combined with collapsing) quantifies over histories and is not decided.",
      "value numbering of the post-state + typestate/ordering rules + resume-scan shape rule",
      "DESIGN.md §4 C11")
claim("C12",
      "Decides the fill candle's six slots, the gap test as a value-number comparison on full timestamps, the cursor discipline (start 1, +1, to len), that filling only inserts fresh candles and keeps no state, and that every normal exit of a collapse pass goes through fill when enabled. Contiguity/schedule independence for every gap pattern is not decided.",
      "Contiguity from first to last bucket and schedule independence are loop properties over run-time data and are not decided.",
      "syntax-directed slot/cursor rules + value-number comparison of the gap test + must-pass-through",
      "DESIGN.md §4 C12")
claim("C15",
      "Decides that trim pops only from the front while oldest < newest - lifespan (strict, raw timestamps; value-number comparison of the loop test) and that this timestamp-tested pop is the only way a candle leaves the list, runs last of the three tasks on construction and every append, and that no formula lets the absolute candle position enter a value (so front pops shift indices uniformly), and that the driver resumes from the last reading present and skips present readings (R-RESUME/R-SKIP/R-SWEEP). Equality of retained readings with an untrimmed twin is not decided.",
      "Retained readings vs an untrimmed twin depends on run-time window contents and is not decided.",
      "value numbering of the trim predicate + ordering rule + position-taint analysis",
      "DESIGN.md §4 C15")
_VN_TEXT = ("For every class of the group the helper wiring and every guarded return path of _calculate_reading are lowered to a polynomial/Herbrand normal form and shown equal to a reference definition "
            "transcribed from the property statement (same guards, equal values as rational functions, equal managed-series state). This decides 'the formula is the definition' for all inputs and parameters at once - "
            "a wrong window edge, swapped band, smoothing constant off by one or a changed warm-up guard changes the normal form although it stays inside the test suite's one-significant-digit tolerance. The helper summaries the formulas are read through (reading_period, candles_sum, accessor wrappers, store helpers, the movement extrema they call) are checked against the helpers' bodies, and both drivers must round with the indicator's own round_value. ")
claim("C04", _VN_TEXT + "Position independence is decided outright by taint analysis (the absolute index never reaches a value or a branch of a moving average).",
      "Floating-point error 'within rounding' and the range clause beyond the convex-combination shape are not decided; slots the statement leaves open are not compared. The reference definitions (spec/refs.py) are part of the trusted base.",
      "polynomial global value numbering against a definition table + position-taint analysis", "DESIGN.md §4 C04-C06")
claim("C05", _VN_TEXT,
      "Floating-point error is not decided; STDEV warm-up index, HL window length are taken from the shipped code (statement silent). Reference definitions are trusted.",
      "polynomial global value numbering against a definition table", "DESIGN.md §4 C04-C06")
claim("C06", _VN_TEXT,
      "Floating-point error is not decided; VWAP before any volume and TSI with a zero denominator are unspecified slots. Reference definitions are trusted.",
      "polynomial global value numbering against a definition table", "DESIGN.md §4 C04-C06")
claim("C10",
      "Decides, for every input, the invariants that are visible in the normal forms: linear identities between output fields (zero-polynomial differences), band ordering by sign analysis with inductive helper summaries, Donchian window agreement and enclosure, TR/ATR/STDEV non-negativity, the finite output domains of Supertrend/OBV/Counter by per-path case analysis, RSI and Aroon ranges by sign/interval analysis of the normal form, rounding as a post-dominator of every formula in both drivers, and that a merge into a timeframe bucket unconditionally wipes the bucket's readings (so the invariants relate to the merged candle). 'Averages within their inputs' is reduced to equality with the convex-combination definitions plus the convexity lemma.",
      "Not decided: [0,100] for STOCH and ADX, [-100,100] for TSI (relational facts between run-time series). Assumes well-formed candles, multiplier > 0, 0 < smoothing <= period+1; induction hypothesis on previous own readings.",
      "value numbering (R-AFFINE) + sign/interval domain (R-SIGN/R-INTERVALS) + finite-domain case analysis (R-FINITE) + ordering rule (R-ROUND)",
      "DESIGN.md §4 C10")
claim("C17",
      "Decides the documented meaning of every predicate as a fact about its normal form: the exact set of comparisons each movement function performs on readings (strictness, positions, tie rule, cross = above now and below before), which windows include the current candle, that cleaned windows keep exactly the numbers, the candle geometry formulas, that each pattern is the conjunction of exactly its documented clauses (each clause compared as a value number with the documented expression), and scale/shift invariance through a homogeneity (affine-unit) analysis that is complete for that clause. These hold for every candle list, index and length because they are computed from the code, not from samples.",
      "Behaviour 'with a clear margin' on constructed witnesses is an evaluation of the predicates and is not decided; invariance is in exact arithmetic.",
      "abstract interpretation with callee inlining: comparison-set extraction, clause-set value numbering, affine-unit homogeneity analysis",
      "DESIGN.md §4 C17")

# ---- additions after seeding rounds 2-4 (appended to the texts above)
_EXTRA = {
    "C01": " Also decided: the same position rules over every pattern/movement function and the Amorph wrapper; the collapse walk rules of C03 (interval, conservation, invariant, one epoch); a candle's derived geometry is never cached on the candle; indicator and manager spell a timeframe identically (registry key).",
    "C03": " Also decided: the input converters hand every OHLCV slot over unchanged; every append reaches every manager; Candle.merge is reachable from the walk only.",
    "C04": " Registering a helper only binds it (its configuration, incl. rounding, stays what _initialise passed); indicators are registered in the given order; removing an indicator purges its readings before it is dropped.",
    "C05": " Registering a helper only binds it (its configuration, incl. rounding, stays what _initialise passed); indicators are registered in the given order; removing an indicator purges its readings before it is dropped.",
    "C06": " Registering a helper only binds it (its configuration, incl. rounding, stays what _initialise passed); indicators are registered in the given order; removing an indicator purges its readings before it is dropped.",
    "C07": " The resume scan is decided semantically (prefix model, closed-form scan, Fourier-Motzkin entailment): every case resumes at m or m-1 and the scan runs newest-first; an iteration whose trip count cannot be expressed in the configuration is a finding.",
    "C08": " Also: indicator and manager spell a timeframe identically (R-REGKEY), the registry keeps the given order and is written only while indicators are bound, the manager purges exact names only.",
    "C09": " Also: no division whose numerator and denominator are both quotients by a geometrically decaying unrounded series (inf/inf = NaN, R-NAN); the helper summaries are checked against the helpers' bodies; bucket helpers keep the timestamp's own tzinfo in the epoch.",
    "C10": " Also: the input converters fill each slot from the key/position of the same name (the candle axiom the sign analysis assumes is preserved); helper rounding is not overridden by the parent.",
    "C11": " The conversion resume scan is decided semantically: with m converted candles every return case entails result == m (delegations to shared helpers inlined); the conversion tag is cleared only in conversion / raw_copy / merge.",
    "C12": " Also: a new timeframe manager is seeded from raw copies of the base candles (never from another manager's filled candles).",
    "C13": " Also: constructors/initialisers do not mutate caller-supplied containers; only __init__/_validate_indicators write the manager registry; Indicator.purge reaches the manager on every path and keeps no state (no mutable default); an operation given a name never falls back to all indicators; no prefix/substring matching on names.",
    "C14": " Also: merge unconditionally resets a bucket's readings; Indicator.purge has no early-return path; selection by name never falls back to all indicators; registry order and writers as in C08.",
    "C15": " Also: the lifespan is stored as configured and never reduced to a timedelta component (.seconds); gap filling does not depend on the lifespan.",
    "C17": " The positions of every read (previous candle is a real earlier candle, windows end at the evaluated candle) are proved with the C16 rules.",
    "C18": " now(tz) with a possibly-None tz (the tzinfo of a naive timestamp) counts as a local-clock read.",
    "C20": " Also: the sweep moves the active index onto every visited candle (default position after calculate() is the newest candle), every part of a name passes the '.'->',' sanitiser, Hexital resolves names exactly (no prefix matching).",
}
for _k, _v in _EXTRA.items():
    CLAIMED[_k]["text"] = CLAIMED[_k]["text"] + _v
CLAIMED["C07"]["technique"] = "loop-bound analysis + call-graph reachability (R-BOUND/R-SPAN/R-HISTORY) + symbolic summary of the resume scan with polyhedra entailment"
CLAIMED["C11"]["technique"] = "value numbering of the post-state + typestate/ordering rules + symbolic summary of the resume scan with polyhedra entailment (result == m)"

# ---- additions after seeding round 5 and the two late repairs of /repo
_EXTRA2 = {
    "C01": " The fill step (R-FILL, R-FILLPATH: one symbolic iteration of the scan; flat candles at the previous candle's RAW close) and Hexital.append (every manager gets all the given candles; afterwards every indicator resumes through calculate()) are decided here too; the resume scan is exact (result == m), since re-entering a calculated candle overwrites helper series.",
    "C02": " The collapse walk takes no parameters and the fill step does the same thing on every pass (R-CONSERVE, R-FILLPATH, R-FILL): a fill candle never appears later between closed buckets; the resume scan is exact.",
    "C04": " Also: helper series are named after the instance (R-NS); inputs come through the one resolver (R-CONTRACT: candle attributes incl. derived measures, then indicators, then sub_indicators); Hexital.append resumes every indicator through calculate().",
    "C05": " Also: helper series are named after the instance (R-NS); inputs come through the one resolver (R-CONTRACT); Hexital.append resumes every indicator through calculate().",
    "C06": " Also: helper series are named after the instance (R-NS); inputs come through the one resolver (R-CONTRACT); Hexital.append resumes every indicator through calculate().",
    "C08": " Also: the candle_manager setter copies the manager's four configuration attributes (what `settings` reports); Hexital.append hands every manager all the given candles (a filtering comprehension / slice is a witness, an unknown transformation is undecided).",
    "C09": " Also: every stored reading, helpers included, is rounded on every arm of the drivers (R-ROUND): the `!= 0` guards in front of the divisions protect them only down to the rounding quantum.",
    "C12": " The fill step is decided from one symbolic iteration (in-place scan: examined pair, insert position, step, first position, end condition; forward-pass builder: chain tail, exit condition); the flat price is the previous candle's RAW close (with a candlestick type the previous candle may already be converted on a re-collapse); the bucket-edge helpers agree on the grid (R-EPOCH). Bulk rewrites (computed run lengths) are undecided.",
    "C14": " The resume scan is exact (result == m): calculate() again never re-enters a calculated candle.",
    "C15": " The resume scan is exact (result == m): with a window of [previous, new] the previous candle is not re-entered (that used to overwrite helper series; repaired in 1020d13); formulas keep no state keyed by list positions (R-STATE).",
    "C16": " Also: candle geometry is computed from the current prices on every access (R-GEOM, R-STATE) and the index helpers treat i and i - n alike (R-CONTRACT).",
    "C18": " fromtimestamp(s, tz) with a possibly-None tz counts as a conversion to the process zone.",
    "C19": " Also: every conversion saves the raw values first (typestate), so Candle objects reach other managers as raw copies and the three encodings stay equivalent.",
    "C20": " Also: every indicator's manager is the one registered for its timeframe (R-BIND, R-REGISTRY), so Hexital.reading and Indicator.reading look at the same candles.",
}
for _k, _v in _EXTRA2.items():
    CLAIMED[_k]["text"] = CLAIMED[_k]["text"] + _v

# ---- common preamble about the front end (after the refactoring rounds)
_FRONT = (" Front end: every module is parsed, canonicalised (hexlint/normalize.py) and helpers that are not part of the pinned decomposition are inlined "
          "(hexlint/inline.py) before the rules run, so behaviour-preserving restructurings (extract method, guard clauses, loops vs all/any/next/sum, renamed locals, "
          "positional vs keyword arguments, match statements, assignment expressions, small value classes / enums / lookup tables, methods moved to functions and modules) "
          "present the same program to the rules; a shape the analysis cannot follow, or a report inside a function that relies on a helper class that could not be dissolved, "
          "is ANALYSIS-ERROR (exit 2, 'cannot decide'), never a violation.")

# ---- additions after refactoring rounds 4-6 and seeding round 7: rules decided by evaluation on model inputs (convsem / helpersem)
_EVAL = (" Rules about small look-up / dispatch code (the input converters, CandleManager.append's dispatch and copies, Candle.raw_copy, the look-up helpers "
         "reading_by_candle / reading_by_index / reading_count / reading_period / candles_sum and their Indicator wrappers, Managed.set_reading, Hexital.reading, "
         "has_reading / prev_exists, selection by name in Hexital.purge / calculate / calculate_index, Hexital.append's fan-out) are decided by evaluating that code with "
         "hexlint's own interpreter over the loaded syntax trees on a fixed family of model inputs (shape-level abstract interpretation: concrete shapes, opaque leaves "
         "where the property allows; nothing of /repo is imported or run); the verdict covers the listed inputs and whatever the code does uniformly in the leaves, the "
         "evidence lists them; a construct outside the interpreter's subset is 'cannot decide'.")
_EVAL_PROPS = ("C01", "C02", "C03", "C04", "C05", "C06", "C08", "C09", "C10", "C11", "C12", "C13", "C14", "C15", "C16", "C19", "C20")
for _k in _EVAL_PROPS:
    CLAIMED[_k]["note"] = CLAIMED[_k]["note"] + _EVAL
_TECH_ADD = {
    "C19": "interprocedural write-effect / alias analysis to a fixed point + shape-level abstract interpretation (convsem) of the converters, CandleManager.append and Candle.raw_copy on model inputs",
    "C20": "funnel / contract rules over the accessor call graph + abstract interpretation of the index helpers + evaluation (convsem / helpersem) of the look-up helpers, Hexital.reading and the presence tests on model inputs",
    "C03": None, "C08": None, "C13": None,
}
for _k, _v in _TECH_ADD.items():
    if _v:
        CLAIMED[_k]["technique"] = _v
    else:
        CLAIMED[_k]["technique"] = CLAIMED[_k]["technique"] + " + evaluation of dispatch / selection code on model inputs (convsem)"
_FRONT = _FRONT.replace("present the same program to the rules;", "present the same program to the rules (also: single-use locals forward-substituted, aliases of attribute paths expanded under a package-wide may-write summary, comprehensions and loops over constant tuples unrolled);")
for _k in CLAIMED:
    CLAIMED[_k]["note"] = CLAIMED[_k]["note"] + _FRONT

# ---- additions after seeding round 8
_EXTRA3 = {
    "C07": " A prefix slice `candles[:i]` used as a loop / comprehension iterable on the calculation path counts as a whole-history walk (R-HISTORY).",
    "C08": " The candlestick-type object, which a Hexital shares over all its managers, keeps no state between conversion passes (R-STATE).",
    "C09": " Also: a helper reading used in arithmetic under the presence test of a sibling helper of the same kind has periods provably <= the sibling's, given the ordering that evaluating `_validate_fields` on sample values establishes (R-ORDERED); every path that returns a reading writes the managed series the other paths write, unless a value-free condition explains it (R-GAP, managed series).",
    "C10": " A field of an identity (histogram beside MACD and signal) may be None next to set fields only under warm-up facts, never under a value / truthiness condition (R-AFFINE); round_values has no exact-type test, so float / dict subclasses are rounded too (R-ROUND).",
    "C11": " With gap filling the inserted buckets belong to the raw series the conversion starts from: the fill rules (R-FILL, flat at the previous bucket's RAW close) are part of this check.",
    "C12": " Every timeframe manager a Hexital creates for a member gets the Hexital-level fill setting (R-BIND, decided by evaluating _validate_indicators on model members).",
    "C20": " reading_count's contract is evaluated on dotted names into dict readings whose field warms up later than the parent.",
}
for _k, _v in _EXTRA3.items():
    CLAIMED[_k]["text"] = CLAIMED[_k]["text"] + _v
CLAIMED["C09"]["technique"] = ("path-sensitive abstract interpretation + sign domain (R-DIV/R-SQRT/R-TRUTH/R-WIRE/R-GAP) + helper-ordering rule over the composition tree "
                               "with polyhedra entailment on period expressions and evaluation of _validate_fields on sample settings (R-ORDERED)")
CLAIMED["C10"]["technique"] = CLAIMED["C10"]["technique"] + " + path-condition classification of withheld identity fields (R-AFFINE) + syntactic dispatch rule on round_values (R-ROUND)"
