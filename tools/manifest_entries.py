claim("C16",
      "Decides, for every input at once, the structural clauses of C16: every positional read/slice in every MOVEMENT_MAP/PATTERN_MAP function (callees inlined) is built from the normalised index, is >= 0 and <= the evaluated index for all arguments, and every ordering/arithmetic on a looked-up reading is presence-guarded; Amorph passes the absolute index. These are the property's own conditions (same answer on the truncated list, same answer for the negative index, no raise on missing readings) expressed as obligations on the code; a static proof over all arguments is the right level because the tests only sample the default index.",
      "Trusted: the hexlint abstract interpreter and its Fourier-Motzkin entailment; the contracts of absindex/valid_index (checked against their bodies in C20); the six reviewed len(candles) validity guards frozen in rules_analysis.py. Does not decide what the predicates mean (C17).",
      "abstract interpretation + polyhedra entailment of position obligations (R-NORM/R-WRAP/R-CAUSAL/R-NONE)",
      "DESIGN.md §4 C16, §3 position rules")
claim("C01",
      "Decides the structural preconditions of the batch==incremental induction for all indicators and inputs: reads of _calculate_reading(t) lie in [0,t] and writes hit index t of own series (abstract interpretation + polyhedra entailment), formula code keeps no state on the object, the sweep starts at a sound resume index and skips present readings, sub-indicators run before/after the parent, append = manager tasks then calculate, merge restores raw values and wipes the bucket. Equality of readings on collapsing timeframes also needs the collapse walk invariant (C03), which is not decided.",
      "Assumes no trimming and input contiguity for the inductive warm-up bound; the collapsed candle list's schedule independence is not decided. Trusted: hexlint engine.",
      "abstract interpretation (position obligations) + syntax-directed ordering/typestate rules",
      "DESIGN.md §4 C01")
claim("C02",
      "Decides 'no look-ahead, written once' structurally for every input: every positional read in the 27 formulas and in all movement/pattern functions is proven to lie in [0, evaluated index] (a negative position is a read of the newest candle), every write targets the evaluated index and an own series, the sweep skips present readings, the resume mark is key membership, and collapse merges only into the last bucket and re-labels only the candle being placed.",
      "Does not decide that collapse never re-labels an earlier bucket for every timestamp pattern (needs C03's loop invariant). Inductive warm-up bound assumes no trimming.",
      "abstract interpretation + Fourier-Motzkin entailment of R-WRAP/R-CAUSAL/R-WRITE obligations",
      "DESIGN.md §4 C02")
claim("C07",
      "Decides the O(1)-per-append guarantee as a shape of the code: every loop/reduction/slice reachable from a calculation has a trip count bounded by a configuration-linear expression (proved in the polyhedra domain for clamped windows), helper recompute ranges have length 1, no whole-history function is reachable from the calculation path in the resolved call graph, and the sweep starts from a newest-first resume scan and skips present readings. A regression that recomputes history returns identical values, so only a structural/complexity argument can see it.",
      "collapse/trim/fill are O(n) per append and outside the property's observation scope (noted). Call graph resolution is name/receiver based and conservative; helper construction in _initialise is treated as one-shot.",
      "loop-bound analysis + call-graph reachability (R-BOUND/R-SPAN/R-HISTORY)",
      "DESIGN.md §4 C07")
claim("C09",
      "Exception-source audit over all inputs: every division, sqrt, truthiness-as-presence test and literal helper/field name in the calculation scope is enumerated from the abstract interpretation and discharged by sign analysis (with inductive helper summaries and compositional sign tracking), dominating non-zero facts, or resolution in the composition tree. Genuine zero-denominator defects that remain (STOCH, VWMA, TSI) are listed as known findings.",
      "Assumes well-formed candles, positive price input, periods >= 2, positive multipliers; overflow to inf and None-arithmetic beyond the contiguity assumption are not decided.",
      "abstract interpretation + sign domain (R-DIV/R-SQRT/R-TRUTH/R-WIRE)",
      "DESIGN.md §4 C09")
