#!/usr/bin/env python3
"""apply textual mutants to /repo one at a time, run checks, restore.  usage: mutate.py <props,comma> <file> <old> <new> [<file> <old> <new> ...]"""
import subprocess, sys

props = sys.argv[1].split(",")
triples = sys.argv[2:]
assert len(triples) % 3 == 0
if subprocess.run(["git", "-C", "/repo", "status", "--porcelain", "--untracked-files=no"], capture_output=True, text=True).stdout.strip():
    sys.exit("repo dirty")
for i in range(0, len(triples), 3):
    f, old, new = triples[i : i + 3]
    path = "/repo/" + f
    src = open(path).read()
    if src.count(old) != 1:
        print(f"MUTANT {f}: `{' '.join(old.split())[:50]}` occurs {src.count(old)} times -- skipped")
        continue
    open(path, "w").write(src.replace(old, new))
    try:
        for p in props:
            r = subprocess.run(["/verif/check", p], capture_output=True, text=True)
            first = next((l.strip() for l in r.stdout.splitlines() if l.startswith("  ")), "")
            if r.returncode == 2:
                first = next((l.strip() for l in r.stdout.splitlines() if "ANALYSIS-ERROR" in l), first)
            lab = " ".join(old.split())[:40] + " -> " + " ".join(new.split())[:40]
            print(f"MUTANT {f.split('/')[-1]}: {lab} | {p} exit={r.returncode} {first[:150]}")
    finally:
        open(path, "w").write(src)
