#!/usr/bin/env python3
"""rebase_fill.py <old-base-commit> <dir with patch.diff> ...

Ports stored patches (seeded changes / refactorings) across the /repo fix that made gap filling use the previous candle's RAW close:
the patch is applied to the old base, fill-candle constructors `Candle(open=X.close, close=X.close, high=X.close, low=X.close, volume=0, ..)`
in the patched tree are rewritten to the raw close, and the result is diffed against the current HEAD.  The old patch is kept as
patch.diff.orig_base."""
import ast
import os
import re
import shutil
import subprocess
import sys
import tempfile

OLD_BLOCK = """                fill_candle = Candle(
                    open=prev_candle.close,
                    close=prev_candle.close,
                    high=prev_candle.close,
                    low=prev_candle.close,
                    volume=0,
                    timestamp=prev_candle.timestamp + timeframe,
                )
"""
NEW_BLOCK = """                prev_close = prev_candle.clean_values.get("close", prev_candle.close)
                fill_candle = Candle(
                    open=prev_close,
                    close=prev_close,
                    high=prev_close,
                    low=prev_close,
                    volume=0,
                    timestamp=prev_candle.timestamp + timeframe,
                )
"""


def rewrite_ctor(src: str) -> str:
    """every Candle(...) call with >= 3 arguments spelled `<expr>.close` (same <expr>) and a zero volume: those arguments become the raw close"""
    try:
        tree = ast.parse(src)
    except SyntaxError:
        return src
    lines = src.split("\n")
    starts = [0]
    for l in lines:
        starts.append(starts[-1] + len(l) + 1)
    edits = []
    for n in ast.walk(tree):
        if isinstance(n, ast.Call) and isinstance(n.func, ast.Name) and n.func.id == "Candle":
            args = list(n.args) + [k.value for k in n.keywords]
            closes = [a for a in args if isinstance(a, ast.Attribute) and a.attr == "close"]
            if len(closes) >= 3 and len({ast.unparse(a) for a in closes}) == 1 and any(isinstance(a, ast.Constant) and a.value == 0 for a in args):
                base = ast.unparse(closes[0].value)
                for a in closes:
                    s = starts[a.lineno - 1] + a.col_offset
                    e = starts[a.end_lineno - 1] + a.end_col_offset
                    edits.append((s, e, f'{base}.clean_values.get("close", {base}.close)'))
    for s, e, t in sorted(edits, reverse=True):
        src = src[:s] + t + src[e:]
    return src


def main():
    old_base = sys.argv[1]
    for d in sys.argv[2:]:
        d = d.rstrip("/")
        patch = os.path.join(d, "patch.diff")
        a = tempfile.mkdtemp(prefix="rbA.")
        b = tempfile.mkdtemp(prefix="rbB.")
        subprocess.run(["git", "-C", "/repo", "worktree", "add", "-q", "--detach", a, old_base], check=True)
        subprocess.run(["git", "-C", "/repo", "worktree", "add", "-q", "--detach", b, "HEAD"], check=True)
        try:
            r = subprocess.run(["git", "-C", a, "apply", patch], capture_output=True, text=True)
            if r.returncode != 0:
                print(d, "does not apply to the old base:", r.stderr.strip()[:100])
                continue
            st = subprocess.run(["git", "-C", a, "status", "--porcelain"], capture_output=True, text=True).stdout.split("\n")
            changed = [l[3:] for l in st if l.strip()]
            for rel in changed:
                pa = os.path.join(a, rel)
                if os.path.isdir(pa):
                    for dp, _, fns in os.walk(pa):
                        for fn in fns:
                            changed.append(os.path.relpath(os.path.join(dp, fn), a))
                    continue
                if not os.path.exists(pa):
                    if os.path.exists(os.path.join(b, rel)):
                        os.remove(os.path.join(b, rel))
                    continue
                src = open(pa).read()
                if rel.endswith(".py"):
                    src = src.replace(OLD_BLOCK, NEW_BLOCK) if OLD_BLOCK in src else rewrite_ctor(src)
                os.makedirs(os.path.dirname(os.path.join(b, rel)), exist_ok=True)
                open(os.path.join(b, rel), "w").write(src)
            subprocess.run(["git", "-C", b, "add", "-N", "."], check=True)
            diff = subprocess.run(["git", "-C", b, "diff"], capture_output=True, text=True).stdout
            if not diff.strip():
                print(d, "EMPTY diff after rebasing")
                continue
            if not os.path.exists(patch + ".orig_base"):
                shutil.copy(patch, patch + ".orig_base")
            open(patch, "w").write(diff)
            print(d, "rebased;", "raw close in new code" if 'clean_values.get("close"' in "".join(l for l in diff.split("\n") if l.startswith("+")) else "no fill constructor in added lines")
        finally:
            subprocess.run(["git", "-C", "/repo", "worktree", "remove", "--force", a])
            subprocess.run(["git", "-C", "/repo", "worktree", "remove", "--force", b])


if __name__ == "__main__":
    main()
