#!/usr/bin/env python3
"""behaviour-preserving whole-tree transformations; every check must stay silent (exit 0) on each.
usage: refactor_fuzz.py [--mode rename|mirror|reformat|all] [--files substr,...] [--props C01,..] [--per-file]
 rename   : alpha-rename every function-local variable (not parameters, not names shared with nested scopes)
 mirror   : a < b  ->  b > a  for every two-operand ordering comparison
 reformat : ast.unparse round trip (drops comments, moves every line)
"""
import argparse, ast, os, shutil, subprocess, symtable, sys, tempfile
from concurrent.futures import ThreadPoolExecutor

VERIF = os.path.dirname(os.path.dirname(os.path.abspath(__file__)))
REPO = os.environ.get("HEXLINT_REPO", "/repo")
PROPS = [f"C{i:02d}" for i in range(1, 21)]


class Renamer(ast.NodeTransformer):
    def __init__(self, src):
        self.table = symtable.symtable(src, "m", "exec")

    def _locals(self, tab):
        names = set()
        for s in tab.get_symbols():
            if s.is_local() and not s.is_parameter() and not s.is_imported() and not s.is_namespace() and not s.is_global() and not s.is_nonlocal():
                names.add(s.get_name())
        # names used by nested scopes (free there) keep their name
        def nested(t):
            for c in t.get_children():
                for s in c.get_symbols():
                    if s.is_free() or (not s.is_local() and s.is_referenced()):
                        names.discard(s.get_name())
                nested(c)
        nested(tab)
        return {n for n in names if not n.startswith("__") and n != "_"}

    def run(self, tree):
        self._walk_scope(tree, self.table)
        return tree

    def _walk_scope(self, node, tab):
        kids = {}
        for c in tab.get_children():
            kids.setdefault((c.get_name(), c.get_lineno()), c)
        for n in ast.iter_child_nodes(node):
            self._visit(n, tab, kids)

    def _visit(self, n, tab, kids):
        if isinstance(n, (ast.FunctionDef, ast.AsyncFunctionDef)):
            sub = kids.get((n.name, n.lineno))
            if sub is not None and sub.get_type() == "function":
                loc = self._locals(sub)
                # nested functions/lambdas/comprehensions inside are separate scopes: only rename in this function's own body, not in nested defs
                if loc:
                    _RenameIn(loc).apply(n)
                self._walk_scope(n, sub)
            return
        if isinstance(n, ast.ClassDef):
            sub = kids.get((n.name, n.lineno))
            if sub is not None:
                self._walk_scope(n, sub)
            return
        for c in ast.iter_child_nodes(n):
            self._visit(c, tab, kids)


class _RenameIn:
    def __init__(self, names):
        self.names = names

    def apply(self, fn):
        for stmt in fn.body:
            self._go(stmt)

    def _go(self, node):
        if isinstance(node, (ast.FunctionDef, ast.AsyncFunctionDef, ast.Lambda, ast.ClassDef)):
            return  # different scope; names shared with it were excluded
        if isinstance(node, (ast.ListComp, ast.SetComp, ast.DictComp, ast.GeneratorExp)):
            # the first iterable is evaluated in the enclosing scope
            self._go(node.generators[0].iter)
            return
        if isinstance(node, ast.Name) and node.id in self.names:
            node.id = node.id + "_r"
        for c in ast.iter_child_nodes(node):
            self._go(c)


class Mirror(ast.NodeTransformer):
    FLIP = {ast.Lt: ast.Gt, ast.Gt: ast.Lt, ast.LtE: ast.GtE, ast.GtE: ast.LtE}

    def visit_Compare(self, node):
        self.generic_visit(node)
        if len(node.ops) == 1 and type(node.ops[0]) in self.FLIP:
            return ast.Compare(left=node.comparators[0], ops=[self.FLIP[type(node.ops[0])]()], comparators=[node.left])
        return node


class AugExpand(ast.NodeTransformer):
    """x += y -> x = x + y   (every augmented assignment in the tree works on numbers, strings or datetimes)"""

    def visit_AugAssign(self, node):
        import copy

        load = copy.deepcopy(node.target)
        for n in ast.walk(load):
            if hasattr(n, "ctx"):
                n.ctx = ast.Load()
        return ast.Assign(targets=[node.target], value=ast.BinOp(left=load, op=node.op, right=node.value), lineno=node.lineno)


def _neg(test):
    if isinstance(test, ast.UnaryOp) and isinstance(test.op, ast.Not):
        return test.operand
    return ast.UnaryOp(op=ast.Not(), operand=test)


class ElseSwap(ast.NodeTransformer):
    """if c: A else: B  ->  if not c: B else: A   (two-armed ifs only; elif chains are left alone)"""

    def visit_If(self, node):
        self.generic_visit(node)
        if node.orelse and not (len(node.orelse) == 1 and isinstance(node.orelse[0], ast.If)):
            return ast.If(test=_neg(node.test), body=node.orelse, orelse=node.body)
        return node

    def visit_IfExp(self, node):
        self.generic_visit(node)
        return ast.IfExp(test=_neg(node.test), body=node.orelse, orelse=node.body)


class ChainSplit(ast.NodeTransformer):
    """a < b <= c  ->  a < b and b <= c   (middle operands in this tree are plain attribute reads)"""

    def visit_Compare(self, node):
        self.generic_visit(node)
        if len(node.ops) == 2 and isinstance(node.comparators[0], (ast.Name, ast.Attribute)):
            import copy

            return ast.BoolOp(op=ast.And(), values=[ast.Compare(left=node.left, ops=[node.ops[0]], comparators=[node.comparators[0]]), ast.Compare(left=copy.deepcopy(node.comparators[0]), ops=[node.ops[1]], comparators=[node.comparators[1]])])
        return node


class Commute(ast.NodeTransformer):
    """a * b -> b * a ;  a == b -> b == a ;  a != b -> b != a"""

    def visit_BinOp(self, node):
        self.generic_visit(node)
        if isinstance(node.op, ast.Mult):
            return ast.BinOp(left=node.right, op=node.op, right=node.left)
        return node

    def visit_Compare(self, node):
        self.generic_visit(node)
        if len(node.ops) == 1 and isinstance(node.ops[0], (ast.Eq, ast.NotEq)):
            return ast.Compare(left=node.comparators[0], ops=node.ops, comparators=[node.left])
        return node


class ExtractReturn(ast.NodeTransformer):
    """return <expr>  ->  result_ = <expr>; return result_   (for calls, arithmetic, comparisons, conditionals, displays)"""

    def _block(self, stmts):
        out = []
        for st in stmts:
            if isinstance(st, ast.Return) and isinstance(st.value, (ast.Call, ast.BinOp, ast.Compare, ast.IfExp, ast.Dict, ast.BoolOp, ast.Subscript)):
                out.append(ast.Assign(targets=[ast.Name(id="result_", ctx=ast.Store())], value=st.value, lineno=st.lineno))
                out.append(ast.Return(value=ast.Name(id="result_", ctx=ast.Load())))
            else:
                out.append(st)
        return out

    def generic_visit(self, node):
        super().generic_visit(node)
        for f in ("body", "orelse", "finalbody"):
            v = getattr(node, f, None)
            if isinstance(v, list) and v and isinstance(v[0], ast.stmt):
                setattr(node, f, self._block(v))
        return node

    def visit_Lambda(self, node):
        return node


class NotNorm(ast.NodeTransformer):
    """not a == b -> a != b ; a != b -> not a == b ; x is not None -> not x is None ; not x is None -> x is not None"""

    def visit_UnaryOp(self, node):
        if isinstance(node.op, ast.Not) and isinstance(node.operand, ast.Compare) and len(node.operand.ops) == 1:
            c = node.operand
            inv = {ast.Eq: ast.NotEq, ast.NotEq: ast.Eq, ast.Is: ast.IsNot, ast.IsNot: ast.Is, ast.In: ast.NotIn, ast.NotIn: ast.In}
            if type(c.ops[0]) in inv:
                self.generic_visit(c)
                return ast.Compare(left=c.left, ops=[inv[type(c.ops[0])]()], comparators=c.comparators)
        self.generic_visit(node)
        return node

    def visit_Compare(self, node):
        self.generic_visit(node)
        inv = {ast.NotEq: ast.Eq, ast.IsNot: ast.Is, ast.NotIn: ast.In}
        if len(node.ops) == 1 and type(node.ops[0]) in inv:
            return ast.UnaryOp(op=ast.Not(), operand=ast.Compare(left=node.left, ops=[inv[type(node.ops[0])]()], comparators=node.comparators))
        return node


class Tern2If(ast.NodeTransformer):
    """v = a if c else b  ->  if c: v = a  else: v = b   (plain name targets)"""

    def _block(self, stmts):
        out = []
        for st in stmts:
            if isinstance(st, ast.Assign) and len(st.targets) == 1 and isinstance(st.targets[0], ast.Name) and isinstance(st.value, ast.IfExp):
                import copy

                out.append(ast.If(test=st.value.test, body=[ast.Assign(targets=[copy.deepcopy(st.targets[0])], value=st.value.body, lineno=st.lineno)], orelse=[ast.Assign(targets=[copy.deepcopy(st.targets[0])], value=st.value.orelse, lineno=st.lineno)]))
            else:
                out.append(st)
        return out

    def generic_visit(self, node):
        super().generic_visit(node)
        for f in ("body", "orelse", "finalbody"):
            v = getattr(node, f, None)
            if isinstance(v, list) and v and isinstance(v[0], ast.stmt):
                setattr(node, f, self._block(v))
        return node


def private_param_names(srcs):
    """{function name: {param: new}} for every private (single underscore) function / method name defined in the tree; the same map is
    applied to every definition and every keyword call of that name, so overrides and callers stay consistent"""
    mp = {}
    for src in srcs:
        for n in ast.walk(ast.parse(src)):
            if isinstance(n, (ast.FunctionDef, ast.AsyncFunctionDef)) and n.name.startswith("_") and not n.name.startswith("__"):
                for a in n.args.args + n.args.kwonlyargs:
                    if a.arg not in ("self", "cls"):
                        mp.setdefault(n.name, {})[a.arg] = a.arg + "_p"
    return mp


class ParamRename(ast.NodeTransformer):
    def __init__(self, mp):
        self.mp = mp

    def visit_FunctionDef(self, node):
        ren = self.mp.get(node.name) if node.name.startswith("_") and not node.name.startswith("__") else None
        if ren:
            for a in node.args.args + node.args.kwonlyargs:
                if a.arg in ren:
                    a.arg = ren[a.arg]
            _RenameBody(ren).apply(node)
        self.generic_visit(node)
        return node

    def visit_Call(self, node):
        self.generic_visit(node)
        nm = node.func.attr if isinstance(node.func, ast.Attribute) else node.func.id if isinstance(node.func, ast.Name) else None
        if nm in self.mp:
            for k in node.keywords:
                if k.arg in self.mp[nm]:
                    k.arg = self.mp[nm][k.arg]
        return node


class _RenameBody:
    def __init__(self, ren):
        self.ren = ren

    def apply(self, fn):
        for d in fn.args.defaults + fn.args.kw_defaults:
            pass
        for st in fn.body:
            self._go(st, set())

    def _go(self, node, shadow):
        if isinstance(node, (ast.FunctionDef, ast.AsyncFunctionDef, ast.Lambda)):
            inner = {a.arg for a in node.args.args + node.args.kwonlyargs}
            body = node.body if isinstance(node.body, list) else [node.body]
            for c in body:
                self._go(c, shadow | inner)
            return
        if isinstance(node, ast.Name) and node.id in self.ren and node.id not in shadow:
            node.id = self.ren[node.id]
        for c in ast.iter_child_nodes(node):
            self._go(c, shadow)


class DictCall(ast.NodeTransformer):
    """{"a": x, "b": y} -> dict(a=x, b=y)   (string keys that are identifiers)"""

    def visit_Dict(self, node):
        self.generic_visit(node)
        if node.keys and all(isinstance(k, ast.Constant) and isinstance(k.value, str) and k.value.isidentifier() for k in node.keys):
            return ast.Call(func=ast.Name(id="dict", ctx=ast.Load()), args=[], keywords=[ast.keyword(arg=k.value, value=v) for k, v in zip(node.keys, node.values)])
        return node


class FStr2Concat(ast.NodeTransformer):
    """f"{a}_x" -> a + "_x"   (only f-strings whose interpolations are plain names / attributes without format specs)"""

    def visit_JoinedStr(self, node):
        parts = []
        for v in node.values:
            if isinstance(v, ast.Constant):
                parts.append(v)
            elif isinstance(v, ast.FormattedValue) and v.conversion == -1 and v.format_spec is None and isinstance(v.value, ast.Attribute) and ast.unparse(v.value) == "self.name":
                parts.append(v.value)
            else:
                return node
        if len(parts) < 2:
            return node
        out = parts[0]
        for p_ in parts[1:]:
            out = ast.BinOp(left=out, op=ast.Add(), right=p_)
        return out


class Guard2Else(ast.NodeTransformer):
    """if c: <... return>          if c: <... return>
       rest                   ->   else: rest                (guard clause folded into if/else)"""

    def _block(self, stmts):
        for i, st in enumerate(stmts):
            if isinstance(st, ast.If) and not st.orelse and st.body and isinstance(st.body[-1], (ast.Return, ast.Raise, ast.Continue)) and i + 1 < len(stmts):
                rest = self._block(stmts[i + 1 :])
                return stmts[:i] + [ast.If(test=st.test, body=st.body, orelse=rest)]
        return stmts

    def visit_FunctionDef(self, node):
        self.generic_visit(node)
        doc = node.body[:1] if node.body and isinstance(node.body[0], ast.Expr) and isinstance(node.body[0].value, ast.Constant) else []
        node.body = doc + self._block(node.body[len(doc):])
        return node


def unique_signatures(srcs):
    """{function name: [param names]} for names whose every definition in the tree has the same parameter list"""
    sigs = {}
    for src in srcs:
        for n in ast.walk(ast.parse(src)):
            if isinstance(n, (ast.FunctionDef, ast.AsyncFunctionDef)) and not n.args.vararg and not n.args.kwarg and not n.args.posonlyargs:
                ps = tuple(a.arg for a in n.args.args if a.arg not in ("self", "cls"))
                sigs.setdefault(n.name, set()).add(ps)
    return {k: list(next(iter(v))) for k, v in sigs.items() if len(v) == 1 and not k.startswith("__")}


class Pos2Kw(ast.NodeTransformer):
    """f(a, b) -> f(p1=a, p2=b) for calls of functions / methods defined in the tree with a unique signature (all but the first
    positional argument are turned into keywords)"""

    def __init__(self, sigs):
        self.sigs = sigs

    def visit_Call(self, node):
        self.generic_visit(node)
        nm = node.func.attr if isinstance(node.func, ast.Attribute) else node.func.id if isinstance(node.func, ast.Name) else None
        if isinstance(node.func, ast.Attribute) and not (isinstance(node.func.value, ast.Name) and node.func.value.id in ("self", "utils", "movement", "patterns")) and not (isinstance(node.func.value, ast.Name) and node.func.value.id[:1].isupper()):
            return node  # receiver of unknown type: could be a builtin method of the same name
        ps = self.sigs.get(nm)
        if ps and 1 < len(node.args) <= len(ps) and not any(isinstance(a, ast.Starred) for a in node.args):
            keep, move = node.args[:1], node.args[1:]
            node.keywords = [ast.keyword(arg=ps[1 + i], value=a) for i, a in enumerate(move)] + node.keywords
            node.args = keep
        return node


class LogCalls(ast.NodeTransformer):
    """import logging; logger = logging.getLogger(__name__) at module level and logger.debug("enter <fn>") as the first statement of every
    function (after the docstring)"""

    def visit_Module(self, node):
        self.generic_visit(node)
        i = 0
        while i < len(node.body) and (isinstance(node.body[i], (ast.Import, ast.ImportFrom)) or (isinstance(node.body[i], ast.Expr) and isinstance(node.body[i].value, ast.Constant))):
            i += 1
        pre = ast.parse("import logging\nlogger = logging.getLogger(__name__)").body
        node.body = node.body[:i] + pre + node.body[i:]
        return node

    def visit_FunctionDef(self, node):
        self.generic_visit(node)
        d = 1 if node.body and isinstance(node.body[0], ast.Expr) and isinstance(node.body[0].value, ast.Constant) else 0
        call = ast.parse(f'logger.debug("enter {node.name}")').body[0]
        node.body = node.body[:d] + [call] + node.body[d:]
        return node


SIGS = {}
PARAM_MAP = {}


def transform(src, mode):
    tree = ast.parse(src)
    if mode == "rename":
        tree = Renamer(src).run(tree)
    elif mode == "mirror":
        tree = Mirror().visit(tree)
    elif mode == "augexpand":
        tree = AugExpand().visit(tree)
    elif mode == "elseswap":
        tree = ElseSwap().visit(tree)
    elif mode == "chainsplit":
        tree = ChainSplit().visit(tree)
    elif mode == "commute":
        tree = Commute().visit(tree)
    elif mode == "extractret":
        tree = ExtractReturn().visit(tree)
    elif mode == "notnorm":
        tree = NotNorm().visit(tree)
    elif mode == "tern2if":
        tree = Tern2If().visit(tree)
    elif mode == "paramrename":
        tree = ParamRename(PARAM_MAP).visit(tree)
    elif mode == "dictcall":
        tree = DictCall().visit(tree)
    elif mode == "fstr2concat":
        tree = FStr2Concat().visit(tree)
    elif mode == "guard2else":
        tree = Guard2Else().visit(tree)
    elif mode == "pos2kw":
        tree = Pos2Kw(SIGS).visit(tree)
    elif mode == "logcalls":
        tree = LogCalls().visit(tree)
    ast.fix_missing_locations(tree)
    return ast.unparse(tree) + "\n"


def run_variant(label, mode, only_file, props):
    tmp = tempfile.mkdtemp(prefix="rf.")
    try:
        shutil.copytree(os.path.join(REPO, "hexital"), os.path.join(tmp, "hexital"), ignore=shutil.ignore_patterns("__pycache__"))
        n = 0
        for root, _, files in os.walk(os.path.join(tmp, "hexital")):
            for f in files:
                p = os.path.join(root, f)
                rel = os.path.relpath(p, tmp)
                if not f.endswith(".py") or (only_file and rel != only_file):
                    continue
                src = open(p).read()
                new = transform(src, mode)
                compile(new, p, "exec")
                if ast.dump(ast.parse(new)) != ast.dump(ast.parse(src)):
                    n += 1
                open(p, "w").write(new)
        env = dict(os.environ, HEXLINT_REPO=tmp, HEXLINT_EVIDENCE_DIR=os.path.join(tmp, "ev"))
        bad = {}
        for pr in props:
            c = subprocess.run([os.path.join(VERIF, "check"), pr], capture_output=True, text=True, env=env)
            if c.returncode != 0:
                first = next((l.strip() for l in c.stdout.splitlines() if l.startswith("  ") or "ANALYSIS-ERROR" in l), "")
                bad[pr] = (c.returncode, first[:230])
        return label, n, bad
    finally:
        shutil.rmtree(tmp, ignore_errors=True)


def main():
    ap = argparse.ArgumentParser()
    ap.add_argument("--mode", default="all")
    ap.add_argument("--files", default="")
    ap.add_argument("--props", default="")
    ap.add_argument("--per-file", action="store_true")
    a = ap.parse_args()
    modes = ["rename", "mirror", "reformat", "augexpand", "elseswap", "chainsplit", "commute", "extractret", "notnorm", "tern2if", "paramrename", "dictcall", "fstr2concat", "guard2else", "pos2kw", "logcalls"] if a.mode == "all" else a.mode.split(",")
    props = a.props.split(",") if a.props else PROPS
    srcs = []
    for root, _, files in os.walk(os.path.join(REPO, "hexital")):
        for f in files:
            if f.endswith(".py"):
                srcs.append(open(os.path.join(root, f)).read())
    PARAM_MAP.update(private_param_names(srcs))
    SIGS.update(unique_signatures(srcs))
    jobs = []
    for m in modes:
        if a.per_file:
            for root, _, files in os.walk(os.path.join(REPO, "hexital")):
                for f in sorted(files):
                    rel = os.path.relpath(os.path.join(root, f), REPO)
                    if f.endswith(".py") and (not a.files or any(x in rel for x in a.files.split(","))):
                        jobs.append((f"{m}:{rel}", m, rel, props))
        else:
            jobs.append((f"{m}:<all files>", m, None, props))
    with ThreadPoolExecutor(8) as ex:
        out = list(ex.map(lambda j: run_variant(*j), jobs))
    rc = 0
    for label, n, bad in out:
        if bad:
            rc = 1
            print(f"FALSE-ALARM {label} ({n} files changed)")
            for p, (code, first) in sorted(bad.items()):
                print(f"   {p} exit {code}: {first}")
        else:
            print(f"silent      {label} ({n} files changed)")
    return rc


if __name__ == "__main__":
    sys.exit(main())
