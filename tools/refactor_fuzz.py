#!/usr/bin/env python3
"""behaviour-preserving whole-tree transformations; every check must stay silent (exit 0) on each.
usage: refactor_fuzz.py [--mode rename|mirror|reformat|all] [--files substr,...] [--props C01,..] [--per-file]
 rename   : alpha-rename every function-local variable (not parameters, not names shared with nested scopes)
 mirror   : a < b  ->  b > a  for every two-operand ordering comparison
 reformat : ast.unparse round trip (drops comments, moves every line)
"""
import argparse, ast, os, shutil, subprocess, symtable, sys, tempfile
from concurrent.futures import ThreadPoolExecutor

VERIF = os.path.dirname(os.path.dirname(os.path.abspath(__file__)))
REPO = os.environ.get("HEXLINT_REPO", "/repo")
PROPS = [f"C{i:02d}" for i in range(1, 21)]


class Renamer(ast.NodeTransformer):
    def __init__(self, src):
        self.table = symtable.symtable(src, "m", "exec")

    def _locals(self, tab):
        names = set()
        for s in tab.get_symbols():
            if s.is_local() and not s.is_parameter() and not s.is_imported() and not s.is_namespace() and not s.is_global() and not s.is_nonlocal():
                names.add(s.get_name())
        # names used by nested scopes (free there) keep their name
        def nested(t):
            for c in t.get_children():
                for s in c.get_symbols():
                    if s.is_free() or (not s.is_local() and s.is_referenced()):
                        names.discard(s.get_name())
                nested(c)
        nested(tab)
        return {n for n in names if not n.startswith("__") and n != "_"}

    def run(self, tree):
        self._walk_scope(tree, self.table)
        return tree

    def _walk_scope(self, node, tab):
        kids = {}
        for c in tab.get_children():
            kids.setdefault((c.get_name(), c.get_lineno()), c)
        for n in ast.iter_child_nodes(node):
            self._visit(n, tab, kids)

    def _visit(self, n, tab, kids):
        if isinstance(n, (ast.FunctionDef, ast.AsyncFunctionDef)):
            sub = kids.get((n.name, n.lineno))
            if sub is not None and sub.get_type() == "function":
                loc = self._locals(sub)
                # nested functions/lambdas/comprehensions inside are separate scopes: only rename in this function's own body, not in nested defs
                if loc:
                    _RenameIn(loc).apply(n)
                self._walk_scope(n, sub)
            return
        if isinstance(n, ast.ClassDef):
            sub = kids.get((n.name, n.lineno))
            if sub is not None:
                self._walk_scope(n, sub)
            return
        for c in ast.iter_child_nodes(n):
            self._visit(c, tab, kids)


class _RenameIn:
    def __init__(self, names):
        self.names = names

    def apply(self, fn):
        for stmt in fn.body:
            self._go(stmt)

    def _go(self, node):
        if isinstance(node, (ast.FunctionDef, ast.AsyncFunctionDef, ast.Lambda, ast.ClassDef)):
            return  # different scope; names shared with it were excluded
        if isinstance(node, (ast.ListComp, ast.SetComp, ast.DictComp, ast.GeneratorExp)):
            # the first iterable is evaluated in the enclosing scope
            self._go(node.generators[0].iter)
            return
        if isinstance(node, ast.Name) and node.id in self.names:
            node.id = node.id + "_r"
        for c in ast.iter_child_nodes(node):
            self._go(c)


class Mirror(ast.NodeTransformer):
    FLIP = {ast.Lt: ast.Gt, ast.Gt: ast.Lt, ast.LtE: ast.GtE, ast.GtE: ast.LtE}

    def visit_Compare(self, node):
        self.generic_visit(node)
        if len(node.ops) == 1 and type(node.ops[0]) in self.FLIP:
            return ast.Compare(left=node.comparators[0], ops=[self.FLIP[type(node.ops[0])]()], comparators=[node.left])
        return node


class AugExpand(ast.NodeTransformer):
    """x += y -> x = x + y   (every augmented assignment in the tree works on numbers, strings or datetimes)"""

    def visit_AugAssign(self, node):
        import copy

        load = copy.deepcopy(node.target)
        for n in ast.walk(load):
            if hasattr(n, "ctx"):
                n.ctx = ast.Load()
        return ast.Assign(targets=[node.target], value=ast.BinOp(left=load, op=node.op, right=node.value), lineno=node.lineno)


def _neg(test):
    if isinstance(test, ast.UnaryOp) and isinstance(test.op, ast.Not):
        return test.operand
    return ast.UnaryOp(op=ast.Not(), operand=test)


class ElseSwap(ast.NodeTransformer):
    """if c: A else: B  ->  if not c: B else: A   (two-armed ifs only; elif chains are left alone)"""

    def visit_If(self, node):
        self.generic_visit(node)
        if node.orelse and not (len(node.orelse) == 1 and isinstance(node.orelse[0], ast.If)):
            return ast.If(test=_neg(node.test), body=node.orelse, orelse=node.body)
        return node

    def visit_IfExp(self, node):
        self.generic_visit(node)
        return ast.IfExp(test=_neg(node.test), body=node.orelse, orelse=node.body)


class ChainSplit(ast.NodeTransformer):
    """a < b <= c  ->  a < b and b <= c   (middle operands in this tree are plain attribute reads)"""

    def visit_Compare(self, node):
        self.generic_visit(node)
        if len(node.ops) == 2 and isinstance(node.comparators[0], (ast.Name, ast.Attribute)):
            import copy

            return ast.BoolOp(op=ast.And(), values=[ast.Compare(left=node.left, ops=[node.ops[0]], comparators=[node.comparators[0]]), ast.Compare(left=copy.deepcopy(node.comparators[0]), ops=[node.ops[1]], comparators=[node.comparators[1]])])
        return node


def transform(src, mode):
    tree = ast.parse(src)
    if mode == "rename":
        tree = Renamer(src).run(tree)
    elif mode == "mirror":
        tree = Mirror().visit(tree)
    elif mode == "augexpand":
        tree = AugExpand().visit(tree)
    elif mode == "elseswap":
        tree = ElseSwap().visit(tree)
    elif mode == "chainsplit":
        tree = ChainSplit().visit(tree)
    ast.fix_missing_locations(tree)
    return ast.unparse(tree) + "\n"


def run_variant(label, mode, only_file, props):
    tmp = tempfile.mkdtemp(prefix="rf.")
    try:
        shutil.copytree(os.path.join(REPO, "hexital"), os.path.join(tmp, "hexital"), ignore=shutil.ignore_patterns("__pycache__"))
        n = 0
        for root, _, files in os.walk(os.path.join(tmp, "hexital")):
            for f in files:
                p = os.path.join(root, f)
                rel = os.path.relpath(p, tmp)
                if not f.endswith(".py") or (only_file and rel != only_file):
                    continue
                src = open(p).read()
                new = transform(src, mode)
                compile(new, p, "exec")
                if ast.dump(ast.parse(new)) != ast.dump(ast.parse(src)):
                    n += 1
                open(p, "w").write(new)
        env = dict(os.environ, HEXLINT_REPO=tmp, HEXLINT_EVIDENCE_DIR=os.path.join(tmp, "ev"))
        bad = {}
        for pr in props:
            c = subprocess.run([os.path.join(VERIF, "check"), pr], capture_output=True, text=True, env=env)
            if c.returncode != 0:
                first = next((l.strip() for l in c.stdout.splitlines() if l.startswith("  ") or "ANALYSIS-ERROR" in l), "")
                bad[pr] = (c.returncode, first[:230])
        return label, n, bad
    finally:
        shutil.rmtree(tmp, ignore_errors=True)


def main():
    ap = argparse.ArgumentParser()
    ap.add_argument("--mode", default="all")
    ap.add_argument("--files", default="")
    ap.add_argument("--props", default="")
    ap.add_argument("--per-file", action="store_true")
    a = ap.parse_args()
    modes = ["rename", "mirror", "reformat", "augexpand", "elseswap", "chainsplit"] if a.mode == "all" else a.mode.split(",")
    props = a.props.split(",") if a.props else PROPS
    jobs = []
    for m in modes:
        if a.per_file:
            for root, _, files in os.walk(os.path.join(REPO, "hexital")):
                for f in sorted(files):
                    rel = os.path.relpath(os.path.join(root, f), REPO)
                    if f.endswith(".py") and (not a.files or any(x in rel for x in a.files.split(","))):
                        jobs.append((f"{m}:{rel}", m, rel, props))
        else:
            jobs.append((f"{m}:<all files>", m, None, props))
    with ThreadPoolExecutor(8) as ex:
        out = list(ex.map(lambda j: run_variant(*j), jobs))
    rc = 0
    for label, n, bad in out:
        if bad:
            rc = 1
            print(f"FALSE-ALARM {label} ({n} files changed)")
            for p, (code, first) in sorted(bad.items()):
                print(f"   {p} exit {code}: {first}")
        else:
            print(f"silent      {label} ({n} files changed)")
    return rc


if __name__ == "__main__":
    sys.exit(main())
