#!/usr/bin/env python3
"""run every quick check against every stored behaviour-preserving refactoring (refactors/*/patch.diff) on scratch copies;
every cell must be exit 0.  usage: refactor_matrix.py [id ...]  -> refactors/MATRIX.json"""
import json, os, shutil, subprocess, sys, tempfile
from concurrent.futures import ThreadPoolExecutor

VERIF = os.path.dirname(os.path.dirname(os.path.abspath(__file__)))
PROPS = os.environ.get("HEXLINT_PROPS", "").split() or [f"C{i:02d}" for i in range(1, 21)]
D = os.path.join(VERIF, "refactors")
ids = sys.argv[1:] or sorted(d for d in os.listdir(D) if os.path.isfile(os.path.join(D, d, "patch.diff")))


def run(rid):
    tmp = tempfile.mkdtemp(prefix="rm.")
    try:
        shutil.copytree("/repo/hexital", os.path.join(tmp, "hexital"), ignore=shutil.ignore_patterns("__pycache__"))
        a = subprocess.run(["git", "apply", os.path.join(D, rid, "patch.diff")], cwd=tmp, capture_output=True, text=True)
        if a.returncode != 0:
            return rid, {"error": "patch does not apply: " + a.stderr[:150]}
        env = dict(os.environ, HEXLINT_REPO=tmp, HEXLINT_EVIDENCE_DIR=os.path.join(tmp, "ev"))
        out = {}
        for p in PROPS:
            c = subprocess.run([os.path.join(VERIF, "check"), p], capture_output=True, text=True, env=env)
            first = next((l.strip() for l in c.stdout.splitlines() if l.startswith("  ") or "ANALYSIS-ERROR" in l), "")
            out[p] = {"exit": c.returncode, "first": first[:260]}
        return rid, out
    finally:
        shutil.rmtree(tmp, ignore_errors=True)


with ThreadPoolExecutor(int(os.environ.get("HEXLINT_JOBS", "8"))) as ex:
    results = dict(ex.map(run, ids))
path = os.path.join(D, "MATRIX.json")
old = json.load(open(path)) if os.path.exists(path) and sys.argv[1:] else {}
old.update(results)
json.dump(old, open(path, "w"), indent=1, sort_keys=True)
bad = 0
for rid in ids:
    r = results[rid]
    if "error" in r:
        print(rid, r["error"]); continue
    nz = {p: v for p, v in r.items() if v["exit"] != 0}
    if nz:
        bad += 1
        print(f"FALSE-ALARM? {rid}")
        for p, v in sorted(nz.items()):
            print(f"   {p} exit {v['exit']}: {v['first']}")
    else:
        print(f"silent {rid}")
sys.exit(1 if bad else 0)
