#!/usr/bin/env python3
"""rf_debug.py <refactor id> <ClassName>: print the normalised _calculate_reading and the interpreter's paths for a stored refactoring"""
import sys, os, ast, shutil, subprocess, tempfile
sys.path.insert(0, '/verif')
rid, cls = sys.argv[1], sys.argv[2]
tmp = tempfile.mkdtemp(prefix='rd.')
shutil.copytree('/repo/hexital', tmp + '/hexital', ignore=shutil.ignore_patterns('__pycache__'))
subprocess.run(['git', 'apply', f'/verif/refactors/{rid}/patch.diff'], cwd=tmp, check=True)
os.environ['HEXLINT_REPO'] = tmp
from hexlint.model import Repo
from hexlint.indic import analyse_class
repo = Repo()
ci = [c for c in repo.shipped() if c.name == cls][0]
fn = repo.find_method(ci, '_calculate_reading')
print(ast.unparse(fn.node))
ca = analyse_class(repo, ci)
print('ERROR', ca.error)
for p in ca.paths:
    print('PATH', ' & '.join(str(f)[:70] for f in p.state.facts)[:300], '=>', repr(p.ret)[:260])
shutil.rmtree(tmp)
