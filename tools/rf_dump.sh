#!/bin/bash
# usage: tools/rf_dump.sh <refactor-or-seed id | patch> <module> <function-or-class name>...   (prints the loaded, normalised form)
P=$1; shift; M=$1; shift
[ -d /verif/refactors/$P ] && P=/verif/refactors/$P/patch.diff
[ -d /verif/seeded/$P ] && P=/verif/seeded/$P/patch.diff
WT=$(mktemp -d /tmp/rt.XXXXXX)
git -C /repo worktree add -q --detach "$WT" HEAD || exit 2
git -C "$WT" apply "$P" || echo "cannot apply"
for n in "$@"; do python3 /verif/tools/dump_fn.py $WT $M $n; done
git -C /repo worktree remove --force "$WT"
