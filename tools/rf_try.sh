#!/bin/bash
# usage: tools/rf_try.sh <refactors/<id> | seeded/<id> | patch file> <prop> [<prop>...]   (scratch worktree of /repo HEAD + patch, quick checks, removed afterwards)
P=$1; shift
[ -d /verif/refactors/$P ] && P=/verif/refactors/$P/patch.diff
[ -d /verif/seeded/$P ] && P=/verif/seeded/$P/patch.diff
WT=$(mktemp -d /tmp/rt.XXXXXX)
git -C /repo worktree add -q --detach "$WT" HEAD || exit 2
git -C "$WT" apply "$P" || { echo "cannot apply"; git -C /repo worktree remove --force "$WT"; exit 2; }
for prop in "$@"; do
  out=$(HEXLINT_REPO=$WT HEXLINT_EVIDENCE_DIR=$WT/.ev /verif/check "$prop" 2>&1); code=$?
  echo "== $prop exit=$code"
  echo "$out" | grep -E "VIOLATION|ANALYSIS-ERROR|^  |Traceback|Error" | cut -c1-${MAXC:-300} | head -${MAXL:-8}
done
if [ -n "$KEEP" ]; then echo "kept $WT"; else git -C /repo worktree remove --force "$WT"; fi
