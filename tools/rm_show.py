#!/usr/bin/env python3
"""show the non-zero cells of refactors/MATRIX.json: rm_show.py [id-substring]"""
import json, sys
mx = json.load(open('/verif/refactors/MATRIX.json'))
sub = sys.argv[1] if len(sys.argv) > 1 else ""
for rid, r in sorted(mx.items()):
    if sub not in rid:
        continue
    if 'error' in r:
        print(rid, r['error']); continue
    bad = {p: v for p, v in r.items() if v['exit'] != 0}
    if bad:
        seen = set()
        for p in sorted(bad):
            msg = bad[p]['first']
            key = msg.split(' -- ')[0][-80:]
            if key in seen:
                continue
            seen.add(key)
            print(f"{rid} {p} x{bad[p]['exit']}: {msg[:int(sys.argv[2]) if len(sys.argv) > 2 else 230]}")
