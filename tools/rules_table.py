#!/usr/bin/env python3
"""regenerate the rules-per-property table of DESIGN.md (between the RULES-TABLE markers) from evidence/*.json (clean-tree quick runs)"""
import json, os

VERIF = os.path.dirname(os.path.dirname(os.path.abspath(__file__)))
rows = ["| id | rules (sites discharged on the pinned tree) | obligations |", "|----|-----------------------------------|---|"]
for i in range(1, 21):
    pid = f"C{i:02d}"
    ev = json.load(open(os.path.join(VERIF, "evidence", pid + ".json")))
    rules = ev["coverage"]["rules"]
    txt = ", ".join(f"{k} {v['sites']}" + (f" ({v['failed']} known)" if v["failed"] else "") for k, v in sorted(rules.items()) if k != "SELFTEST")
    rows.append(f"| {pid} | {txt} | {ev['coverage']['obligations']} |")
p = os.path.join(VERIF, "DESIGN.md")
s = open(p).read()
b, e = "<!-- RULES-TABLE:BEGIN -->", "<!-- RULES-TABLE:END -->"
s = s[: s.index(b) + len(b)] + "\n" + "\n".join(rows) + "\n" + s[s.index(e):]
open(p, "w").write(s)
print("ok")
