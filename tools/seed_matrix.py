#!/usr/bin/env python3
"""run every registered quick check against every seeded change (scratch copies, 16-wide); prints a matrix.
usage: seed_matrix.py [seed-id ...]   -> writes seeded/MATRIX.json"""
import json, os, shutil, subprocess, sys, tempfile
from concurrent.futures import ThreadPoolExecutor

VERIF = os.path.dirname(os.path.dirname(os.path.abspath(__file__)))
PROPS = os.environ.get("HEXLINT_PROPS", "").split() or [f"C{i:02d}" for i in range(1, 21)]
seeds = sys.argv[1:] or sorted(d for d in os.listdir(os.path.join(VERIF, "seeded")) if os.path.isfile(os.path.join(VERIF, "seeded", d, "patch.diff")))


def run_seed(sid):
    tmp = tempfile.mkdtemp(prefix="mx.")
    try:
        subprocess.run(["git", "-C", "/repo", "worktree", "add", "-q", "--detach", tmp + "/r", "HEAD"], check=True, capture_output=True)
        r = subprocess.run(["git", "-C", tmp + "/r", "apply", os.path.join(VERIF, "seeded", sid, "patch.diff")], capture_output=True, text=True)
        if r.returncode != 0:
            return sid, {"error": "patch does not apply: " + r.stderr[:200]}
        env = dict(os.environ, HEXLINT_REPO=tmp + "/r", HEXLINT_EVIDENCE_DIR=tmp + "/ev")
        out = {}
        for p in PROPS:
            c = subprocess.run([os.path.join(VERIF, "check"), p], capture_output=True, text=True, env=env)
            first = next((l.strip() for l in c.stdout.splitlines() if l.startswith("  ")), "")
            rules = sorted({l.split()[1] for l in c.stdout.splitlines() if l.startswith("  ") and len(l.split()) > 1})
            out[p] = {"exit": c.returncode, "rules": rules, "first": first[:200]}
        return sid, out
    finally:
        subprocess.run(["git", "-C", "/repo", "worktree", "remove", "--force", tmp + "/r"], capture_output=True)
        shutil.rmtree(tmp, ignore_errors=True)


with ThreadPoolExecutor(int(os.environ.get("HEXLINT_JOBS", "8"))) as ex:
    results = dict(ex.map(run_seed, seeds))
path = os.path.join(VERIF, "seeded", "MATRIX.json")
old = json.load(open(path)) if os.path.exists(path) and sys.argv[1:] else {}
old.update(results)
json.dump(old, open(path, "w"), indent=1, sort_keys=True)
for sid in seeds:
    r = results[sid]
    if "error" in r:
        print(sid, r["error"])
        continue
    own = sid.split("-")[0]
    hit = [p for p in PROPS if r[p]["exit"] == 1]
    err = [p for p in PROPS if r[p]["exit"] == 2]
    print(f"{sid}: own={own}:{r[own]['exit']} caught_by={hit} analysis_error={err}")
