#!/usr/bin/env python3
"""regenerate the seeded-change table of DESIGN.md (between the SEED-TABLE markers) from seeded/*/meta.json and seeded/MATRIX.json"""
import json, os, re

VERIF = os.path.dirname(os.path.dirname(os.path.abspath(__file__)))
mx = json.load(open(os.path.join(VERIF, "seeded", "MATRIX.json")))
rows = ["| seed | rule(s) of its own check | also reported by | change |", "|---|---|---|---|"]
missed = []
for sid in sorted(mx):
    r = mx[sid]
    if "error" in r:
        rows.append(f"| {sid} | (patch does not apply) | | |")
        continue
    own = sid.split("-")[0]
    mp = os.path.join(VERIF, "seeded", sid, "meta.json")
    meta = json.load(open(mp)) if os.path.exists(mp) else {"summary": "(no meta.json delivered; see patch.diff: " + ", ".join(sorted({l[6:].strip() for l in open(os.path.join(VERIF, "seeded", sid, "patch.diff")) if l.startswith("+++ b/")})) + ")"}
    summ = " ".join(str(meta.get("summary", "")).split()).replace("|", "/")[:150]
    rules = ", ".join(r[own]["rules"]) if r[own]["exit"] == 1 else ("*undecided (analysis error, exit 2)*" if r[own]["exit"] == 2 else "**not reported**")
    if r[own]["exit"] != 1:
        missed.append(sid)
    also = ", ".join(p for p in sorted(r) if p != own and r[p]["exit"] == 1) or "—"
    rows.append(f"| {sid} | {rules} | {also} | {summ} |")
text = "\n".join(rows)
p = os.path.join(VERIF, "DESIGN.md")
s = open(p).read()
b, e = "<!-- SEED-TABLE:BEGIN -->", "<!-- SEED-TABLE:END -->"
assert b in s and e in s
s = s[: s.index(b) + len(b)] + "\n" + text + "\n" + s[s.index(e):]
open(p, "w").write(s)
print(f"{len(rows)-2} seeds, not reported by own check: {missed}")
