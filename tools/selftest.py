#!/usr/bin/env python3
"""run the checker self-test corpus on scratch copies of /repo, 16-wide (see hexlint/selftest/runner.py)"""
import os, sys
sys.path.insert(0, os.path.dirname(os.path.dirname(os.path.abspath(__file__))))
from hexlint.selftest.runner import main
sys.exit(main())
