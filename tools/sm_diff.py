#!/usr/bin/env python3
"""sm_diff.py [file]: compare a seed_matrix output with the expectation (own check reports; listed undecided / known misses)"""
import re, json, sys
km = {e['id'] for e in json.load(open('/verif/seeded/KNOWN_MISSES.json'))['entries']}
und = set(json.load(open('/verif/seeded/KNOWN_MISSES.json')).get('undecided', []))
n = 0
for l in open(sys.argv[1] if len(sys.argv) > 1 else '/tmp/sm.out'):
    m = re.match(r'(C\d\d-\w): own=C\d\d:(\d)', l)
    if not m:
        continue
    n += 1
    if m.group(2) != '1' and m.group(1) not in km | und:
        print("UNEXPECTED", l.strip()[:170])
    if m.group(2) == '1' and m.group(1) in km | und:
        print("NOW CAUGHT", l.strip()[:150])
print(n, "seeds compared")
