#!/bin/bash
# usage: [RSUF=r2] store_refactors.sh <srcroot> ids...   (verifies each refactoring a/b/c with refactors/verify_refactor.sh, stores confirmed ones as <id>-<RSUF><x>)
ROOT=$1; shift
for id in "$@"; do
  for x in a b c; do
    src=$ROOT/$id/SEED/$x
    [ -f $src/patch.diff ] || { echo "$id-$x missing"; continue; }
    ( out=$(bash /verif/refactors/verify_refactor.sh $src $id-${RSUF:-r}$x 2>&1 | tail -1); echo "$out"
      if echo "$out" | grep -q "applies=yes suite=\[325 passed.*digest_same=yes"; then
        mkdir -p /verif/refactors/$id-${RSUF:-r}$x; cp $src/patch.diff $src/equiv.py $src/meta.json /verif/refactors/$id-${RSUF:-r}$x/ 2>/dev/null
      else echo "  -> NOT stored: $id-${RSUF:-r}$x"; fi ) &
  done
  if (( $(jobs -r | wc -l) >= 9 )); then wait; fi
done
wait
