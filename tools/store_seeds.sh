#!/bin/bash
# usage: store_seeds.sh <srcroot> <letter for a> <letter for b> ids...   (verifies each seed with seeded/verify_seed.sh, stores the confirmed ones)
ROOT=$1; LA=$2; LB=$3; shift 3
for id in "$@"; do
  for x in a b; do
    src=$ROOT/$id/SEED/$x
    [ -f $src/patch.diff ] || { echo "$id-$x missing"; continue; }
    l=$LA; [ $x = b ] && l=$LB
    ( out=$(bash /verif/seeded/verify_seed.sh $src $id-$l 2>&1 | tail -1); echo "$out"
      if echo "$out" | grep -q "applies=yes suite=\[325 passed.*demo_with_patch_exit=[1-9][0-9]* demo_on_head_exit=0"; then
        mkdir -p /verif/seeded/$id-$l; cp $src/patch.diff $src/demo.py $src/meta.json /verif/seeded/$id-$l/ 2>/dev/null
      else echo "  -> NOT stored: $id-$l"; fi ) &
  done
  if (( $(jobs -r | wc -l) >= 8 )); then wait; fi
done
wait
