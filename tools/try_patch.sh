#!/bin/bash
# usage: tools/try_patch.sh <patch-file | rev:<commit>> <prop> [<prop>...]
# applies the change to /repo's working tree, runs the given checks (quick), and always restores /repo
P=$1; shift
case "$P" in rev:*) ;; /*) ;; *) P="$PWD/$P";; esac
cd /repo || exit 2
if [ -n "$(git status --porcelain --untracked-files=no)" ]; then echo "repo dirty"; exit 2; fi
if [[ "$P" == rev:* ]]; then
  git show "${P#rev:}" | git apply -R || { echo "cannot reverse-apply $P"; exit 2; }
else
  git apply "$P" || { echo "cannot apply $P"; exit 2; }
fi
for prop in "$@"; do
  out=$(/verif/check "$prop" 2>&1); code=$?
  echo "== $prop exit=$code"
  echo "$out" | grep -E "VIOLATION|ANALYSIS-ERROR|^  " | cut -c1-260 | head -${MAXL:-8}
done
git checkout -q -- . 
